package c08

// One case per method of db.ReadOnly / db.Transaction: turn the abstract arguments into real ones,
// call the method, project the real reply onto the abstract reply domain of GluonDB.tla.

import (
	"encoding/json"
	"errors"
	"fmt"
	"sort"
	"strings"

	"github.com/ProtonMail/gluon/db"
	"github.com/ProtonMail/gluon/imap"
)

type act struct {
	Op   string                     `json:"op"`
	Kind string                     `json:"kind"`
	A    map[string]json.RawMessage `json:"a"`
	R    struct {
		Cls string          `json:"cls"`
		Val json.RawMessage `json:"val,omitempty"`
	} `json:"r"`
	Sh struct {
		N int    `json:"n"`
		K int    `json:"k"`
		V string `json:"v"`
	} `json:"sh"`
}

func (a *act) str(k string) string {
	var s string
	_ = json.Unmarshal(a.A[k], &s)
	return s
}
func (a *act) num(k string) int {
	var n int
	_ = json.Unmarshal(a.A[k], &n)
	return n
}
func (a *act) flag(k string) bool {
	var b bool
	_ = json.Unmarshal(a.A[k], &b)
	return b
}
func (a *act) list(k string) []string {
	var l []string
	_ = json.Unmarshal(a.A[k], &l)
	return l
}

type boxFlags struct {
	Fl []string `json:"fl"`
	Pf []string `json:"pf"`
	At []string `json:"at"`
}

func (a *act) fs() boxFlags {
	var f boxFlags
	_ = json.Unmarshal(a.A["fs"], &f)
	return f
}

func (a *act) shapeKey() string {
	return fmt.Sprintf("%s|%s|%d|%d|%s", a.Op, a.R.Cls, a.Sh.N, a.Sh.K, a.Sh.V)
}

// reply of a real call, abstracted
type reply struct {
	cls  string // ok | notfound | error
	val  any
	err  error  // the real error (nil when cls = ok)
	note string // why the projection failed, if it did
	n    int    // concrete length of the list argument / number of concrete rows concerned (size class)
}

func classify(err error) string {
	if err == nil {
		return "ok"
	}
	if errors.Is(err, db.ErrNotFound) {
		return "notfound"
	}
	return "error"
}

func done(err error, n int) reply { return reply{cls: classify(err), val: "", err: err, n: n} }
func val(v any, err error, n int) reply {
	if err != nil {
		return reply{cls: classify(err), err: err, n: n}
	}
	return reply{cls: "ok", val: v, n: n}
}
func broken(note string, n int) reply {
	return reply{cls: "ok", val: map[string]any{"unprojectable": note}, note: note, n: n}
}

// clonesToCheck: every clone for write operations, a few (first, last, two inside) for reads on large groups.
func clonesToCheck(g int, all bool) []int {
	if all || g <= 4 {
		out := make([]int, g)
		for i := range out {
			out[i] = i
		}
		return out
	}
	return []int{0, g / 3, (2 * g) / 3, g - 1}
}

// perClone runs f for the clones of a group and requires the same abstract outcome from each.
func perClone(idx []int, f func(i int) reply) reply {
	var first reply
	for k, i := range idx {
		r := f(i)
		if k == 0 {
			first = r
			if r.cls != "ok" {
				return r // the first failure ends the operation, as it would end the caller's loop
			}
			continue
		}
		if r.cls != first.cls || canonJSON(r.val) != canonJSON(first.val) {
			n := first.n
			return reply{cls: r.cls, val: map[string]any{"unprojectable": "clones disagree"}, err: r.err, n: n,
				note: fmt.Sprintf("clone %d answered %s %s, clone %d answered %s %s (err=%v)", idx[0], first.cls, canonJSON(first.val), i, r.cls, canonJSON(r.val), r.err)}
		}
	}
	return first
}

func (w *world) sumG(ms []string) int {
	n := 0
	for _, m := range ms {
		n += w.g[m]
	}
	return n
}

func (w *world) boxRows(pre *mDB, b int) int {
	if bx := pre.box(b); bx != nil {
		n := 0
		for _, r := range bx.Rows {
			n += w.g[r.M]
		}
		return n
	}
	return 0
}

func (w *world) msgRec(m string, i int, msg *db.Message) map[string]any {
	out := map[string]any{"m": m, "rid": absMsgRid(string(msg.RemoteID), i), "del": msg.Deleted}
	if !msg.Date.Equal(w.msgDate(m)) || msg.Size != msgSize(m, i) || msg.Body != msgBody(m, i) || msg.BodyStructure != msgStruct(m) || msg.Envelope != msgEnv(m) {
		out["opaque"] = fmt.Sprintf("date/size/body/structure/envelope differ from what was created: %v %d %q %q %q", msg.Date, msg.Size, msg.Body, msg.BodyStructure, msg.Envelope)
	}
	if msg.ID != w.ids[m][i] {
		out["id"] = msg.ID.String()
	}
	return out
}

func (w *world) snapItem(b int, id imap.InternalMessageID, rid imap.MessageID, uid imap.UID, recent, deleted bool, flags string) (cloneItem, string) {
	ref, ok := w.ref[id.String()]
	if !ok {
		return cloneItem{}, "unknown message id " + id.String()
	}
	u, i, own, ok := w.absUID(b, int(uid))
	if !ok || own != ref.m || i != ref.i {
		return cloneItem{}, fmt.Sprintf("uid %d reported for clone %d of %s; that uid belongs to clone %d of %q", uid, ref.i, ref.m, i, own)
	}
	return cloneItem{ref.m, ref.i, map[string]any{"m": ref.m, "rid": absMsgRid(string(rid), ref.i), "uid": u, "rec": recent, "del": deleted,
		"fl": absFlags(splitFlags(flags))}}, ""
}

// exec performs one abstract operation. tx is nil for a read outside a write transaction.
func (w *world) exec(a *act, pre *mDB, ro db.ReadOnly, tx db.Transaction) reply {
	ctx := w.ctx
	bid := imap.InternalMailboxID(a.num("b"))
	b := a.num("b")
	switch a.Op {
	// ---------------- mailbox reads ----------------
	case "MailboxExistsWithID":
		v, err := ro.MailboxExistsWithID(ctx, bid)
		return val(v, err, 1)
	case "MailboxExistsWithRemoteID":
		v, err := ro.MailboxExistsWithRemoteID(ctx, boxRid(a.str("r")))
		return val(v, err, 1)
	case "MailboxExistsWithName":
		v, err := ro.MailboxExistsWithName(ctx, boxName(a.str("n")))
		return val(v, err, 1)
	case "GetMailboxIDFromRemoteID":
		v, err := ro.GetMailboxIDFromRemoteID(ctx, boxRid(a.str("r")))
		return val(int(v), err, 1)
	case "GetMailboxName":
		v, err := ro.GetMailboxName(ctx, bid)
		return val(absBoxName(v), err, 1)
	case "GetMailboxNameWithRemoteID":
		v, err := ro.GetMailboxNameWithRemoteID(ctx, boxRid(a.str("r")))
		return val(absBoxName(v), err, 1)
	case "GetMailboxMessageIDPairs":
		n := w.boxRows(pre, b)
		ps, err := ro.GetMailboxMessageIDPairs(ctx, bid)
		if err != nil {
			return val(nil, err, n)
		}
		items := make([]cloneItem, 0, len(ps))
		for _, p := range ps {
			ref, ok := w.ref[p.InternalID.String()]
			if !ok {
				return broken("unknown message id "+p.InternalID.String(), n)
			}
			items = append(items, cloneItem{ref.m, ref.i, map[string]any{"m": ref.m, "rid": absMsgRid(string(p.RemoteID), ref.i)}})
		}
		g, note := w.group(items, false)
		if note != "" {
			return broken(note, n)
		}
		return val(g, nil, n)
	case "GetAllMailboxesWithAttr":
		ms, err := ro.GetAllMailboxesWithAttr(ctx)
		if err != nil {
			return val(nil, err, 1)
		}
		out := []any{}
		for _, m := range ms {
			out = append(out, map[string]any{"mb": mbRec(&m.Mailbox), "at": absFlags(m.Attributes.ToSlice())})
		}
		return val(out, nil, 1)
	case "GetAllMailboxesAsRemoteIDs":
		ids, err := ro.GetAllMailboxesAsRemoteIDs(ctx)
		out := []any{}
		for _, id := range ids {
			out = append(out, absBoxRid(string(id)))
		}
		return val(out, err, 1)
	case "GetMailboxByName":
		m, err := ro.GetMailboxByName(ctx, boxName(a.str("n")))
		if err != nil {
			return val(nil, err, 1)
		}
		return val(mbRec(m), nil, 1)
	case "GetMailboxByID":
		m, err := ro.GetMailboxByID(ctx, bid)
		if err != nil {
			return val(nil, err, 1)
		}
		return val(mbRec(m), nil, 1)
	case "GetMailboxByRemoteID":
		m, err := ro.GetMailboxByRemoteID(ctx, boxRid(a.str("r")))
		if err != nil {
			return val(nil, err, 1)
		}
		return val(mbRec(m), nil, 1)
	case "GetMailboxRecentCount":
		v, err := ro.GetMailboxRecentCount(ctx, bid)
		return val(v, err, w.boxRows(pre, b))
	case "GetMailboxMessageCount":
		v, err := ro.GetMailboxMessageCount(ctx, bid)
		return val(v, err, w.boxRows(pre, b))
	case "GetMailboxMessageCountWithRemoteID":
		v, err := ro.GetMailboxMessageCountWithRemoteID(ctx, boxRid(a.str("r")))
		return val(v, err, 1)
	case "GetMailboxFlags":
		v, err := ro.GetMailboxFlags(ctx, bid)
		return val(absFlags(v.ToSlice()), err, 1)
	case "GetMailboxPermanentFlags":
		v, err := ro.GetMailboxPermanentFlags(ctx, bid)
		return val(absFlags(v.ToSlice()), err, 1)
	case "GetMailboxAttributes":
		v, err := ro.GetMailboxAttributes(ctx, bid)
		return val(absFlags(v.ToSlice()), err, 1)
	case "GetMailboxUID":
		v, err := ro.GetMailboxUID(ctx, bid)
		return val(int(v), err, w.boxRows(pre, b))
	case "GetMailboxMessageCountAndUID":
		c, u, err := ro.GetMailboxMessageCountAndUID(ctx, bid)
		return val(map[string]any{"cnt": c, "uid": int(u)}, err, w.boxRows(pre, b))
	case "GetMailboxMessageForNewSnapshot":
		n := w.boxRows(pre, b)
		rs, err := ro.GetMailboxMessageForNewSnapshot(ctx, bid)
		if err != nil {
			return val(nil, err, n)
		}
		items := make([]cloneItem, 0, len(rs))
		last := 0
		for _, r := range rs {
			if int(r.UID) <= last {
				return broken(fmt.Sprintf("snapshot not in ascending uid order at uid %d", r.UID), n)
			}
			last = int(r.UID)
			it, note := w.snapItem(b, r.InternalID, r.RemoteID, r.UID, r.Recent, r.Deleted, r.Flags)
			if note != "" {
				return broken(note, n)
			}
			items = append(items, it)
		}
		g, note := w.group(items, true)
		if note != "" {
			return broken(note, n)
		}
		return val(map[string]any{"seq": g}, nil, n)
	case "MailboxTranslateRemoteIDs":
		var ids []imap.MailboxID
		for _, r := range a.list("rl") {
			if r == padRid {
				for i := 0; i < w.g[padRid]; i++ {
					ids = append(ids, imap.MailboxID(fmt.Sprintf("%s%s-%d", boxRidPrefix, padRid, i)))
				}
			} else {
				ids = append(ids, boxRid(r))
			}
		}
		got, err := ro.MailboxTranslateRemoteIDs(ctx, ids)
		out := []any{}
		for _, id := range got {
			out = append(out, int(id))
		}
		return val(out, err, len(ids))
	case "MailboxFilterContains":
		ml := a.list("ml")
		n := w.listLen(ml)
		got, err := ro.MailboxFilterContains(ctx, bid, w.pairList(pre, ml, ro))
		if err != nil {
			return val(nil, err, n)
		}
		return w.idSet(got, n)
	case "GetMailboxCount":
		v, err := ro.GetMailboxCount(ctx)
		return val(v, err, 1)
	case "GetAllMailboxesNameAndRemoteID":
		rs, err := ro.GetAllMailboxesNameAndRemoteID(ctx)
		out := []any{}
		for _, r := range rs {
			out = append(out, map[string]any{"name": absBoxName(r.Name), "rid": absBoxRid(string(r.RemoteID))})
		}
		return val(out, err, 1)

	// ---------------- message reads ----------------
	case "MessageExists":
		m := a.str("m")
		return perClone(clonesToCheck(w.g[m], false), func(i int) reply {
			v, err := ro.MessageExists(ctx, w.ids[m][i])
			return val(v, err, 1)
		})
	case "MessageExistsWithRemoteID":
		r := a.str("r")
		return perClone(w.ridClones(pre, r, false), func(i int) reply {
			v, err := ro.MessageExistsWithRemoteID(ctx, msgRid(r, i))
			return val(v, err, 1)
		})
	case "GetMessageNoEdges":
		m := a.str("m")
		return perClone(clonesToCheck(w.g[m], false), func(i int) reply {
			msg, err := ro.GetMessageNoEdges(ctx, w.ids[m][i])
			if err != nil {
				return val(nil, err, 1)
			}
			return val(w.msgRec(m, i, msg), nil, 1)
		})
	case "GetTotalMessageCount":
		v, err := ro.GetTotalMessageCount(ctx)
		return val(v, err, v)
	case "GetMessageRemoteID":
		m := a.str("m")
		return perClone(clonesToCheck(w.g[m], false), func(i int) reply {
			v, err := ro.GetMessageRemoteID(ctx, w.ids[m][i])
			if err != nil {
				return val(nil, err, 1)
			}
			return val(absMsgRid(string(v), i), nil, 1)
		})
	case "GetImportedMessageData":
		m := a.str("m")
		return perClone(clonesToCheck(w.g[m], false), func(i int) reply {
			msg, err := ro.GetImportedMessageData(ctx, w.ids[m][i])
			if err != nil {
				return val(nil, err, 1)
			}
			return val(map[string]any{"msg": w.msgRec(m, i, &msg.Message), "fl": absFlags(msg.Flags.ToSlice())}, nil, 1)
		})
	case "GetMessageDateAndSize":
		m := a.str("m")
		return perClone(clonesToCheck(w.g[m], false), func(i int) reply {
			d, s, err := ro.GetMessageDateAndSize(ctx, w.ids[m][i])
			if err != nil {
				return val(nil, err, 1)
			}
			if !d.Equal(w.msgDate(m)) || s != msgSize(m, i) {
				return val(fmt.Sprintf("date %v size %d, created with %v %d", d, s, w.msgDate(m), msgSize(m, i)), nil, 1)
			}
			return val(m, nil, 1)
		})
	case "GetMessageMailboxIDs":
		m := a.str("m")
		return perClone(clonesToCheck(w.g[m], false), func(i int) reply {
			ids, err := ro.GetMessageMailboxIDs(ctx, w.ids[m][i])
			out := []any{}
			for _, id := range ids {
				out = append(out, int(id))
			}
			return val(out, err, 1)
		})
	case "GetMessagesFlags":
		ml := a.list("ml")
		n := w.listLen(ml)
		fs, err := ro.GetMessagesFlags(ctx, w.idList(ml))
		if err != nil {
			return val(nil, err, n)
		}
		items := make([]cloneItem, 0, len(fs))
		for _, f := range fs {
			ref, ok := w.ref[f.ID.String()]
			if !ok {
				return broken("unknown message id "+f.ID.String(), n)
			}
			var fl []string
			if f.FlagSet != nil {
				fl = f.FlagSet.ToSlice()
			}
			items = append(items, cloneItem{ref.m, ref.i, map[string]any{"m": ref.m, "rid": absMsgRid(string(f.RemoteID), ref.i), "fl": absFlags(fl)}})
		}
		g, note := w.group(items, false)
		if note != "" {
			return broken(note, n)
		}
		return val(g, nil, n)
	case "GetMessageIDsMarkedAsDelete":
		ids, err := ro.GetMessageIDsMarkedAsDelete(ctx)
		if err != nil {
			return val(nil, err, 1)
		}
		return w.idSet(ids, len(ids))
	case "GetMessageIDFromRemoteID":
		r := a.str("r")
		h := holder(pre, r)
		return perClone(w.ridClones(pre, r, false), func(i int) reply {
			id, err := ro.GetMessageIDFromRemoteID(ctx, msgRid(r, i))
			if err != nil {
				return val(nil, err, 1)
			}
			ref, ok := w.ref[id.String()]
			if !ok || (h != "" && ref.i != i) {
				return val(fmt.Sprintf("remote id of clone %d resolved to %v", i, ref), nil, 1)
			}
			return val(ref.m, nil, 1)
		})
	case "GetMessageDeletedFlag":
		m := a.str("m")
		return perClone(clonesToCheck(w.g[m], false), func(i int) reply {
			v, err := ro.GetMessageDeletedFlag(ctx, w.ids[m][i])
			return val(v, err, 1)
		})
	case "GetAllMessagesIDsAsMap":
		mp, err := ro.GetAllMessagesIDsAsMap(ctx)
		if err != nil {
			return val(nil, err, 1)
		}
		ids := make([]imap.InternalMessageID, 0, len(mp))
		for id := range mp {
			ids = append(ids, id)
		}
		return w.idSet(ids, len(ids))
	case "GetDeletedSubscriptionSet":
		mp, err := ro.GetDeletedSubscriptionSet(ctx)
		if err != nil {
			return val(nil, err, 1)
		}
		out := []any{}
		for k, v := range mp {
			if v == nil || k != v.RemoteID {
				return broken(fmt.Sprintf("map key %q does not match its entry %+v", k, v), 1)
			}
			out = append(out, map[string]any{"name": absBoxName(v.Name), "rid": absBoxRid(string(v.RemoteID))})
		}
		return val(out, nil, 1)
	case "GetConnectorSettings":
		v, has, err := ro.GetConnectorSettings(ctx)
		if err != nil {
			return val(nil, err, 1)
		}
		v = strings.TrimPrefix(v, setPrefix)
		return val(map[string]any{"value": v, "has": has}, nil, 1)
	}
	if tx == nil {
		return reply{cls: "harness", note: "write operation " + a.Op + " outside a transaction"}
	}
	switch a.Op {
	// ---------------- mailbox writes ----------------
	case "CreateMailbox":
		f := a.fs()
		m, err := tx.CreateMailbox(ctx, boxRid(a.str("r")), boxName(a.str("n")), flagSet(f.Fl), flagSet(f.Pf), flagSet(f.At), imap.UID(a.num("uv")))
		if err != nil {
			return val(nil, err, 1)
		}
		return val(mbRec(m), nil, 1)
	case "GetOrCreateMailbox":
		f := a.fs()
		m, err := tx.GetOrCreateMailbox(ctx, boxRid(a.str("r")), boxName(a.str("n")), flagSet(f.Fl), flagSet(f.Pf), flagSet(f.At), imap.UID(a.num("uv")))
		if err != nil {
			return val(nil, err, 1)
		}
		return val(mbRec(m), nil, 1)
	case "GetOrCreateMailboxAlt", "CreateMailboxIfNotExists":
		f := a.fs()
		mb := imap.Mailbox{ID: boxRid(a.str("r")), Name: []string{"Fld", a.str("n")}, Flags: flagSet(f.Fl), PermanentFlags: flagSet(f.Pf), Attributes: flagSet(f.At)}
		if a.Op == "CreateMailboxIfNotExists" {
			return done(tx.CreateMailboxIfNotExists(ctx, mb, "/", imap.UID(a.num("uv"))), 1)
		}
		m, err := tx.GetOrCreateMailboxAlt(ctx, mb, "/", imap.UID(a.num("uv")))
		if err != nil {
			return val(nil, err, 1)
		}
		return val(mbRec(m), nil, 1)
	case "RenameMailboxWithRemoteID":
		return done(tx.RenameMailboxWithRemoteID(ctx, boxRid(a.str("r")), boxName(a.str("n"))), 1)
	case "DeleteMailboxWithRemoteID":
		n := 1
		for i := range pre.MB {
			if pre.MB[i].Ex && pre.MB[i].Rid == a.str("r") {
				n = w.boxRows(pre, i+1)
			}
		}
		return done(tx.DeleteMailboxWithRemoteID(ctx, boxRid(a.str("r"))), n)
	case "AddMessagesToMailbox":
		ml := a.list("ml")
		n := w.listLen(ml)
		us, err := tx.AddMessagesToMailbox(ctx, bid, w.pairList(pre, ml, ro))
		if err != nil {
			return val(nil, err, n)
		}
		items := make([]cloneItem, 0, len(us))
		for _, u := range us {
			it, note := w.snapItem(b, u.InternalID, u.RemoteID, u.UID, u.Recent, u.Deleted, u.Flags)
			if note != "" {
				return broken(note, n)
			}
			items = append(items, it)
		}
		g, note := w.group(items, false)
		if note != "" {
			return broken(note, n)
		}
		return val(g, nil, n)
	case "RemoveMessagesFromMailbox":
		ml := a.list("ml")
		return done(tx.RemoveMessagesFromMailbox(ctx, bid, w.idList(ml)), w.listLen(ml))
	case "ClearRecentFlagInMailboxOnMessage":
		m := a.str("m")
		return perClone(clonesToCheck(w.g[m], true), func(i int) reply {
			return done(tx.ClearRecentFlagInMailboxOnMessage(ctx, bid, w.ids[m][i]), 1)
		})
	case "ClearRecentFlagsInMailbox":
		return done(tx.ClearRecentFlagsInMailbox(ctx, bid), w.boxRows(pre, b))
	case "SetMailboxMessagesDeletedFlag":
		ml := a.list("ml")
		return done(tx.SetMailboxMessagesDeletedFlag(ctx, bid, w.idList(ml), a.flag("d")), w.listLen(ml))
	case "SetMailboxSubscribed":
		return done(tx.SetMailboxSubscribed(ctx, bid, a.flag("s")), 1)
	case "UpdateRemoteMailboxID":
		return done(tx.UpdateRemoteMailboxID(ctx, bid, boxRid(a.str("r"))), 1)
	case "SetMailboxUIDValidity":
		return done(tx.SetMailboxUIDValidity(ctx, bid, imap.UID(a.num("uv"))), 1)
	case "AddFlagsToAllMailboxes":
		fl := flagTexts(a.list("fl"))
		return done(tx.AddFlagsToAllMailboxes(ctx, fl...), len(fl))
	case "AddPermFlagsToAllMailboxes":
		fl := flagTexts(a.list("fl"))
		return done(tx.AddPermFlagsToAllMailboxes(ctx, fl...), len(fl))

	// ---------------- message writes ----------------
	case "CreateMessages":
		ml := a.list("ml")
		var reqs []*db.CreateMessageReq
		for _, m := range ml {
			for i := range w.ids[m] {
				reqs = append(reqs, w.req(m, i, a.list("fl")))
			}
		}
		return done(tx.CreateMessages(ctx, reqs...), len(reqs))
	case "CreateMessageAndAddToMailbox":
		m := a.str("m")
		return perClone(clonesToCheck(w.g[m], true), func(i int) reply {
			uid, fl, err := tx.CreateMessageAndAddToMailbox(ctx, bid, w.req(m, i, a.list("fl")))
			if err != nil {
				return val(nil, err, 1)
			}
			u, ci, own, ok := w.absUID(b, int(uid))
			if !ok || own != m || ci != i {
				return val(map[string]any{"uid": fmt.Sprintf("concrete uid %d does not belong to clone %d of %s", uid, i, m)}, nil, 1)
			}
			return val(map[string]any{"uid": u, "fl": absFlags(fl.ToSlice())}, nil, 1)
		})
	case "MarkMessageAsDeleted":
		m := a.str("m")
		return perClone(clonesToCheck(w.g[m], true), func(i int) reply { return done(tx.MarkMessageAsDeleted(ctx, w.ids[m][i]), 1) })
	case "MarkMessageAsDeletedAndAssignRandomRemoteID":
		m := a.str("m")
		return perClone(clonesToCheck(w.g[m], true), func(i int) reply {
			return done(tx.MarkMessageAsDeletedAndAssignRandomRemoteID(ctx, w.ids[m][i]), 1)
		})
	case "MarkMessageAsDeletedWithRemoteID":
		r := a.str("r")
		return perClone(w.ridClones(pre, r, true), func(i int) reply { return done(tx.MarkMessageAsDeletedWithRemoteID(ctx, msgRid(r, i)), 1) })
	case "DeleteMessages":
		ml := a.list("ml")
		return done(tx.DeleteMessages(ctx, w.idList(ml)), w.listLen(ml))
	case "UpdateRemoteMessageID":
		m, r := a.str("m"), a.str("r")
		return perClone(clonesToCheck(w.g[m], true), func(i int) reply {
			return done(tx.UpdateRemoteMessageID(ctx, w.ids[m][i], msgRid(r, i)), 1)
		})
	case "AddFlagToMessages":
		ml := a.list("ml")
		return done(tx.AddFlagToMessages(ctx, w.idList(ml), flagText[a.str("f")]), w.listLen(ml))
	case "RemoveFlagFromMessages":
		ml := a.list("ml")
		return done(tx.RemoveFlagFromMessages(ctx, w.idList(ml), flagText[a.str("f")]), w.listLen(ml))
	case "SetFlagsOnMessages":
		ml := a.list("ml")
		return done(tx.SetFlagsOnMessages(ctx, w.idList(ml), flagSet(a.list("fl"))), w.listLen(ml))

	// ---------------- subscriptions, settings ----------------
	case "AddDeletedSubscription":
		return done(tx.AddDeletedSubscription(ctx, boxName(a.str("n")), boxRid(a.str("r"))), 1)
	case "RemoveDeletedSubscriptionWithName":
		n, err := tx.RemoveDeletedSubscriptionWithName(ctx, boxName(a.str("n")))
		return val(n, err, 1)
	case "StoreConnectorSettings":
		return done(tx.StoreConnectorSettings(ctx, setPrefix+a.str("s")), 1)
	}
	return reply{cls: "harness", note: "unknown operation " + a.Op}
}

// ridClones: the clone indices for an operation keyed by the abstract remote message id r.
func (w *world) ridClones(pre *mDB, r string, all bool) []int {
	if h := holder(pre, r); h != "" {
		return clonesToCheck(w.g[h], all)
	}
	return []int{0}
}

// idSet abstracts a list of internal message ids into the set of abstract messages (every clone exactly once).
func (w *world) idSet(ids []imap.InternalMessageID, n int) reply {
	items := make([]cloneItem, 0, len(ids))
	for _, id := range ids {
		ref, ok := w.ref[id.String()]
		if !ok {
			return broken("unknown message id "+id.String(), n)
		}
		items = append(items, cloneItem{ref.m, ref.i, ref.m})
	}
	g, note := w.group(items, false)
	if note != "" {
		return broken(note, n)
	}
	return val(g, nil, n)
}

// expected turns the model's reply value into the value the projection of the real reply must equal:
// counts are given by the model as the set of abstract messages counted, uids as abstract uids.
func (w *world) expected(a *act) (any, error) {
	var v any
	if len(a.R.Val) > 0 {
		if err := json.Unmarshal(a.R.Val, &v); err != nil {
			return nil, err
		}
	}
	names := func(x any) []string {
		var out []string
		if l, ok := x.([]any); ok {
			for _, e := range l {
				if s, ok := e.(string); ok {
					out = append(out, s)
				}
			}
		}
		sort.Strings(out)
		return out
	}
	switch a.Op {
	case "GetMailboxRecentCount", "GetMailboxMessageCount", "GetMailboxMessageCountWithRemoteID", "GetTotalMessageCount":
		return w.sumG(names(v)), nil
	case "GetMailboxUID":
		u, _ := v.(float64)
		c, ok := w.concUID(a.num("b"), int(u))
		if !ok {
			return nil, fmt.Errorf("no concrete uid for abstract uid %v of mailbox %d", v, a.num("b"))
		}
		return c, nil
	case "GetMailboxMessageCountAndUID":
		mp, _ := v.(map[string]any)
		u, _ := mp["uid"].(float64)
		c, ok := w.concUID(a.num("b"), int(u))
		if !ok {
			return nil, fmt.Errorf("no concrete uid for abstract uid %v of mailbox %d", mp["uid"], a.num("b"))
		}
		return map[string]any{"cnt": w.sumG(names(mp["cnt"])), "uid": c}, nil
	}
	return v, nil
}
