// Package c08: the SQLite message index behaves like the relational model GluonDB.tla.
//
// TLC (a) explores the model exhaustively at small bounds per family of operations (design invariants,
// the universe of (operation, reply class, argument shape) labels) and (b) generates behaviours of the
// full model in simulation mode: sequences of BeginWrite / operations / Commit / Abort with the expected
// reply and the expected relations after every step. Each behaviour is replayed on a real index in a temp
// dir (sqlite3.NewBuilder().New): every abstract message is instantiated by a clone group of g concrete
// messages (g around db.ChunkLimit and ChunkLimit/2), replies are projected back and compared, and the
// whole relational state is read back with plain SQL through an independent read-only connection.
package c08

import (
	"bytes"
	"context"
	"crypto/sha1"
	"encoding/hex"
	"encoding/json"
	"errors"
	"fmt"
	"math/rand"
	"os"
	"path/filepath"
	"sort"
	"strings"
	"sync"
	"time"

	"github.com/ProtonMail/gluon/db"
	"github.com/ProtonMail/gluon/verif/drivers"
	"github.com/ProtonMail/gluon/verif/pkg/ev"
	"github.com/ProtonMail/gluon/verif/pkg/tlc"
)

func init() { drivers.Register("C08", "model_checking", run) }

const simMaxBox = 6 // MaxBox of GluonDB.sim.cfg

var msgOrder = []string{"m1", "m2", "m3"}
var groupSizes = []int{1, 2, 499, 500, 501, 999, 1000, 1001, 2001}

type step struct {
	Act act             `json:"act"`
	Tx  string          `json:"tx"`
	DB  json.RawMessage `json:"db"`
	m   *mDB
}

func (s *step) model() *mDB {
	if s.m == nil {
		d := &mDB{}
		if err := json.Unmarshal(s.DB, d); err != nil {
			panic(fmt.Sprintf("model state does not decode: %v", err))
		}
		d.normalize()
		s.m = d
	}
	return s.m
}

type behaviour struct {
	Trace []*step `json:"trace"`
}

// plan fixes everything the harness chooses for one behaviour (so that --replay repeats it exactly).
type plan struct {
	Sizes map[string]int `json:"sizes"` // clone-group size per abstract message, "Z" = group of unknown remote mailbox ids
	Split []bool         `json:"split"` // per transaction: run every operation in a Write of its own (committed transactions only)
}

type finding struct {
	key, detail string
	step        int
	machinery   bool
}

func sizeClass(n int) string {
	switch {
	case n >= 499 && n <= 501, n >= 999 && n <= 1001:
		return "chunk-boundary"
	case n > 501:
		return "multi-chunk"
	}
	return "small"
}

func emptyModel(maxBox int) *mDB {
	d := &mDB{MB: make([]mBox, maxBox), NextBox: 1, Msgs: msgMap{}, Settings: "null"}
	for i := range d.MB {
		d.MB[i].Next = 1
	}
	for _, m := range msgOrder {
		d.Msgs[m] = mMsg{}
	}
	return d
}

// ---- coverage bookkeeping shared by the replay workers ----

type stats struct {
	mu        sync.Mutex
	run       *ev.Run
	shapes    map[string]int64            // shape key -> executions on the real index
	blocked   map[string]int64            // shape key -> steps not executed because the behaviour had already diverged
	sizeCov   map[string]map[string]int64 // list operation -> size class -> executions
	groupCov  map[string]map[int]int64    // list operation -> clone-group size of a listed message -> executions
	steps     int64
	stateCmp  int64
	aborts    map[string]int64 // abort shape -> count
	splitTx   int64
	wholeTx   int64
	behaviour int64
	cut       int64
}

func newStats(r *ev.Run) *stats {
	return &stats{run: r, shapes: map[string]int64{}, blocked: map[string]int64{}, sizeCov: map[string]map[string]int64{},
		groupCov: map[string]map[int]int64{}, aborts: map[string]int64{}}
}

func (s *stats) executed(a *act, w *world, pre *mDB, n int) {
	key := a.shapeKey()
	h := sha1.New()
	b, _ := json.Marshal(pre)
	h.Write(b)
	ab, _ := json.Marshal(a.A)
	h.Write(ab)
	fmt.Fprint(h, w.g)
	sig := key + "#" + hex.EncodeToString(h.Sum(nil)[:8])
	nontrivial := a.R.Cls != "unjudged" && (!pre.empty() || strings.HasPrefix(a.Op, "Create") || strings.HasPrefix(a.Op, "GetOrCreate"))
	s.run.Eval(sig, nontrivial)
	s.mu.Lock()
	defer s.mu.Unlock()
	s.shapes[key]++
	s.steps++
	var listed []string
	if l := a.list("ml"); a.A["ml"] != nil {
		listed = l
	} else if l := a.list("rl"); a.A["rl"] != nil {
		for _, r := range l {
			if r == padRid {
				listed = append(listed, padRid)
			}
		}
	} else {
		return
	}
	if s.sizeCov[a.Op] == nil {
		s.sizeCov[a.Op] = map[string]int64{}
		s.groupCov[a.Op] = map[int]int64{}
	}
	s.sizeCov[a.Op][sizeClass(n)]++
	for _, m := range listed {
		s.groupCov[a.Op][w.g[m]]++
	}
}

// ---- replay of one behaviour ----

type replayer struct {
	st       *stats
	b        *behaviour
	pl       *plan
	w        *world
	findings []finding
	// attribution run: every transaction (also the aborted ones) is executed operation by operation with the tables
	// compared after each, up to step limit, to name the operation that diverged first
	attrib bool
	limit  int
}

var errAbort = errors.New("c08: the model aborts this transaction")
var errDiverged = errors.New("c08: the operation diverged from the model, roll back")

func (rp *replayer) add(f *finding) {
	if f != nil {
		rp.findings = append(rp.findings, *f)
	}
}

// judge compares the projected real reply with the model's.
func (rp *replayer) judge(idx int, a *act, rep reply) *finding {
	w := rp.w
	if rep.cls == "harness" {
		return &finding{machinery: true, detail: rep.note, step: idx}
	}
	if a.R.Cls == "unjudged" {
		return nil
	}
	cls := sizeClass(rep.n)
	args, _ := json.Marshal(a.A)
	head := fmt.Sprintf("step %d: %s %s  (clone groups %v, concrete list length %d)", idx+1, a.Op, args, w.g, rep.n)
	if rep.cls != a.R.Cls {
		return &finding{key: fmt.Sprintf("%s/%s-instead-of-%s/%s", a.Op, rep.cls, a.R.Cls, cls), step: idx,
			detail: fmt.Sprintf("%s\nmodel: %s %s\nindex: %s %s err=%v %s", head, a.R.Cls, string(a.R.Val), rep.cls, canonJSON(rep.val), rep.err, rep.note)}
	}
	if a.R.Cls != "ok" {
		return nil
	}
	exp, err := w.expected(a)
	if err != nil {
		return &finding{machinery: true, detail: head + ": " + err.Error(), step: idx}
	}
	if canonJSON(exp) != canonJSON(rep.val) {
		return &finding{key: fmt.Sprintf("%s/reply/%s", a.Op, cls), step: idx,
			detail: fmt.Sprintf("%s\nmodel reply: %s\nindex reply: %s %s", head, canonJSON(exp), canonJSON(rep.val), rep.note)}
	}
	return nil
}

// checkState reads the raw tables and compares them with the model state exp.
func (rp *replayer) checkState(idx int, op string, n int, exp *mDB, when string) *finding {
	got, softRel, soft, err := rp.w.readRaw(exp)
	if err != nil {
		return &finding{machinery: true, detail: fmt.Sprintf("raw read after step %d: %v", idx+1, err), step: idx}
	}
	rp.st.mu.Lock()
	rp.st.stateCmp++
	rp.st.mu.Unlock()
	_, _ = rp.w.dataVersion()
	what, detail := softRel, soft
	if soft == "" {
		what, detail = diffDB(exp, got)
	}
	if what == "" {
		return nil
	}
	return &finding{key: fmt.Sprintf("%s/state:%s/%s", op, what, sizeClass(n)), step: idx,
		detail: fmt.Sprintf("step %d (%s): after %s the tables read back with plain SQL differ from the model (clone groups %v, concrete list length %d)\n%s", idx+1, when, op, rp.w.g, n, detail)}
}

func (rp *replayer) run() (machinery error) {
	w, err := newWorld(rp.pl.Sizes, msgOrder, simMaxBox)
	if err != nil {
		return err
	}
	defer w.close()
	rp.w = w
	steps := rp.b.Trace
	cur := emptyModel(simMaxBox)
	txIdx := 0
	i := 0
	stop := func(from int) {
		// the behaviour is abandoned: count what is not executed
		rp.st.mu.Lock()
		for _, s := range steps[from:] {
			rp.st.blocked[s.Act.shapeKey()]++
		}
		rp.st.cut++
		rp.st.mu.Unlock()
	}
	for i < len(steps) {
		st := steps[i]
		if st.Act.Kind == "read" {
			var rep reply
			a := &st.Act
			rerr := w.client.Read(w.ctx, func(ctx context.Context, ro db.ReadOnly) error {
				rep = w.exec(a, cur, ro, nil)
				return nil
			})
			if rerr != nil {
				return fmt.Errorf("client.Read returned %v although the callback returned nil", rerr)
			}
			rp.st.executed(a, w, cur, rep.n)
			f := rp.judge(i, a, rep)
			rp.add(f)
			if f != nil && f.machinery {
				return nil
			}
			if changed, err := w.dataVersion(); err != nil {
				return err
			} else if changed {
				if f := rp.checkState(i, a.Op, rep.n, cur, "a read operation changed the database file"); f != nil {
					rp.add(f)
					stop(i + 1)
					return nil
				}
			}
			i++
			continue
		}
		if st.Act.Op != "BeginWrite" {
			return fmt.Errorf("behaviour step %d: %s outside a transaction", i+1, st.Act.Op)
		}
		j := i + 1
		for j < len(steps) && steps[j].Act.Kind != "tx" {
			j++
		}
		if j >= len(steps) {
			return nil // unfinished transaction at the end of the behaviour: nothing to do
		}
		seg, end := steps[i+1:j], steps[j]
		if rp.attrib && i > rp.limit {
			return nil
		}
		target := rp.attrib && rp.limit <= j // the transaction the attribution run is about
		split := target || (txIdx < len(rp.pl.Split) && rp.pl.Split[txIdx] && end.Act.Op == "Commit")
		txIdx++
		rp.st.mu.Lock()
		rp.st.shapes[st.Act.shapeKey()]++
		rp.st.shapes[end.Act.shapeKey()]++
		rp.st.steps += 2
		if split {
			rp.st.splitTx++
		} else {
			rp.st.wholeTx++
		}
		if end.Act.Op != "Commit" {
			rp.st.aborts[fmt.Sprintf("%s after %d operations (%s)", end.Act.Op, end.Act.Sh.N, end.Act.Sh.V)]++
		}
		rp.st.mu.Unlock()
		pre := cur
		if split {
			for k, s := range seg {
				idx := i + 1 + k
				a := &s.Act
				w.learn(s.model())
				var rep reply
				var werr error
				if a.Kind == "read" {
					werr = w.client.Read(w.ctx, func(ctx context.Context, ro db.ReadOnly) error {
						rep = w.exec(a, pre, ro, nil)
						return nil
					})
				} else {
					werr = w.client.Write(w.ctx, func(ctx context.Context, tx db.Transaction) error {
						rep = w.exec(a, pre, tx, tx)
						return rep.err
					})
					if werr != nil && !errors.Is(werr, rep.err) && rep.err != nil {
						return fmt.Errorf("client.Write returned %v, the callback returned %v", werr, rep.err)
					}
				}
				rp.st.executed(a, w, pre, rep.n)
				f := rp.judge(idx, a, rep)
				rp.add(f)
				if f != nil && (f.machinery || a.Kind == "write") {
					stop(idx + 1)
					return nil
				}
				if a.Kind == "write" && a.R.Cls == "error" {
					return nil // attribution run reached the failing operation of an aborted transaction without a divergence
				}
				if a.Kind == "write" {
					if werr != nil {
						rp.add(&finding{key: "Commit/error/small", step: idx, detail: fmt.Sprintf("step %d: Write around a successful %s returned %v", idx+1, a.Op, werr)})
						stop(idx + 1)
						return nil
					}
					if f := rp.checkState(idx, a.Op, rep.n, s.model(), "operation in a transaction of its own"); f != nil {
						rp.add(f)
						stop(idx + 1)
						return nil
					}
					pre = s.model()
				}
			}
			if target {
				return nil // attribution run: the transaction was executed piecewise, nothing more to learn
			}
			cur = end.model()
			i = j + 1
			continue
		}
		// the whole transaction in one Write
		ownerSnap := w.snapshotOwner()
		var diverged *finding
		var opErr error
		var lastWrite string
		writes, lastN := 0, 1
		var panicked any
		var werr error
		func() {
			defer func() { panicked = recover() }()
			werr = w.client.Write(w.ctx, func(ctx context.Context, tx db.Transaction) error {
				for k, s := range seg {
					idx := i + 1 + k
					a := &s.Act
					w.learn(s.model())
					rep := w.exec(a, pre, tx, tx)
					rp.st.executed(a, w, pre, rep.n)
					f := rp.judge(idx, a, rep)
					if a.Kind == "read" {
						rp.add(f)
						if f != nil && f.machinery {
							diverged = f
							return errDiverged
						}
						continue
					}
					writes++
					lastWrite, lastN = a.Op, rep.n
					if f != nil {
						diverged = f
						rp.add(f)
						return errDiverged
					}
					if a.R.Cls == "error" {
						opErr = rep.err
						return rep.err
					}
					pre = s.model()
				}
				switch end.Act.Op {
				case "AbortError":
					return errAbort
				case "AbortPanic":
					panic(errAbort)
				}
				return nil
			})
		}()
		if diverged != nil {
			stop(j)
			return nil
		}
		if panicked != nil && panicked != errAbort {
			return fmt.Errorf("harness panic inside the Write callback: %v", panicked)
		}
		endOp := end.Act.Op
		switch {
		case endOp == "Commit" && (werr != nil || panicked != nil):
			rp.add(&finding{key: "Commit/error/small", step: j, detail: fmt.Sprintf("step %d: Write returned %v (panic %v) although every operation succeeded and the callback returned nil", j+1, werr, panicked)})
			stop(j + 1)
			return nil
		case endOp == "AbortError" && (panicked != nil || werr == nil || !(errors.Is(werr, errAbort) || (opErr != nil && errors.Is(werr, opErr)))):
			rp.add(&finding{key: "AbortError/returned-error/small", step: j, detail: fmt.Sprintf("step %d: the callback returned an error, Write returned %v (panic %v)", j+1, werr, panicked)})
		case endOp == "AbortPanic" && panicked != errAbort:
			rp.add(&finding{key: "AbortPanic/panic-not-propagated/small", step: j, detail: fmt.Sprintf("step %d: the callback panicked, Write returned %v and re-panicked with %v", j+1, werr, panicked)})
		}
		who := endOp
		if endOp == "Commit" {
			who = "Transaction"
			if writes == 1 {
				who = lastWrite
			}
		} else {
			w.owner = ownerSnap
			lastN = 1
		}
		if f := rp.checkState(j, who, lastN, end.model(), fmt.Sprintf("%s of a transaction with %d write operations", endOp, writes)); f != nil {
			rp.add(f)
			stop(j + 1)
			return nil
		}
		cur = end.model()
		i = j + 1
	}
	return nil
}

// ---- plans ----

func makePlan(rnd *rand.Rand, smallOnly bool, b *behaviour) *plan {
	small := func() int { return groupSizes[rnd.Intn(2)] }
	half := func() int { return groupSizes[2+rnd.Intn(3)] }
	full := func() int { return groupSizes[5+rnd.Intn(3)] }
	any := func() int { return groupSizes[rnd.Intn(len(groupSizes))] }
	names := append(append([]string{}, msgOrder...), padRid)
	sizes := map[string]int{}
	for _, n := range names {
		sizes[n] = small()
	}
	big := names[rnd.Intn(len(names))]
	p := rnd.Float64()
	if smallOnly {
		p = 0
	}
	switch {
	case p < 0.40:
	case p < 0.62:
		sizes[big] = half()
	case p < 0.82:
		sizes[big] = full()
	case p < 0.90:
		sizes[big] = 2001
	default:
		sizes[big] = any()
		sizes[names[rnd.Intn(len(names))]] = any()
	}
	ntx := 0
	for _, s := range b.Trace {
		if s.Act.Op == "BeginWrite" {
			ntx++
		}
	}
	split := make([]bool, ntx)
	for i := range split {
		split[i] = rnd.Float64() < 0.6
	}
	return &plan{Sizes: sizes, Split: split}
}

// ---- TLC ----

func specDir() string { return filepath.Join(ev.Root(), "spec") }

type label struct {
	Op  string `json:"op"`
	Cls string `json:"cls"`
	N   int    `json:"n"`
	K   int    `json:"k"`
	V   string `json:"v"`
}

func (l label) key() string { return fmt.Sprintf("%s|%s|%d|%d|%s", l.Op, l.Cls, l.N, l.K, l.V) }

type family struct {
	cfg     string
	workers int
}

// famInfo: what one exhaustive family run found
type famInfo struct {
	cfg    string
	labels map[string]label
	states int64
}

func runFamilies(r *ev.Run, fams []family, timeout time.Duration) (universe map[string]bool, infos []*famInfo, ok bool) {
	universe = map[string]bool{}
	var mu sync.Mutex
	var wg sync.WaitGroup
	ok = true
	var states, transitions int64
	detail := map[string]any{}
	for _, f := range fams {
		wg.Add(1)
		go func(f family) {
			defer wg.Done()
			info := &famInfo{cfg: f.cfg, labels: map[string]label{}}
			res, err := tlc.Run(tlc.Options{SpecDir: specDir(), Module: "GluonDB", Cfg: filepath.Join(specDir(), "cfg", f.cfg),
				Workers: f.workers, Timeout: timeout, KeepOutput: true, HeapGB: 6,
				OnJSON: func(raw []byte) {
					var l label
					if json.Unmarshal(raw, &l) == nil && l.Op != "" {
						mu.Lock()
						universe[l.key()] = true
						info.labels[l.key()] = l
						mu.Unlock()
					}
				}})
			mu.Lock()
			defer mu.Unlock()
			if err != nil {
				r.Machinery("tlc %s: %v", f.cfg, err)
				ok = false
				return
			}
			if res.Violated != "" || res.Error != "" || !res.Finished || res.TimedOut {
				r.Machinery("TLC on %s did not finish cleanly (violated=%q error=%q timeout=%v): a result about the model, not a verdict about the code\n%s",
					f.cfg, res.Violated, res.Error, res.TimedOut, tail(res.Output, 3000))
				ok = false
				return
			}
			states += res.Distinct
			transitions += res.Generated
			info.states = res.Distinct
			infos = append(infos, info)
			detail[f.cfg] = map[string]any{"distinct_states": res.Distinct, "transitions": res.Generated, "depth": res.Depth, "wall_s": res.Wall.Seconds()}
		}(f)
	}
	wg.Wait()
	r.Set("states", states)
	r.Set("transitions", transitions)
	r.Set("exhaustive_runs", detail)
	return universe, infos, ok
}

// directed asks TLC for the shortest behaviour of a family that takes the label and ends outside a transaction
// (invariant NotReached of GluonDB.tla, counterexample written with -dumpTrace).
func directed(infos []*famInfo, key string, timeout time.Duration) (*behaviour, error) {
	var best *famInfo
	for _, in := range infos {
		if _, ok := in.labels[key]; ok && (best == nil || in.states < best.states) {
			best = in
		}
	}
	if best == nil {
		return nil, fmt.Errorf("no family run printed the label %s", key)
	}
	l := best.labels[key]
	raw, err := os.ReadFile(filepath.Join(specDir(), "cfg", best.cfg))
	if err != nil {
		return nil, err
	}
	var out []string
	for _, line := range strings.Split(string(raw), "\n") {
		t := strings.TrimSpace(line)
		switch {
		case strings.HasPrefix(t, "ACTION_CONSTRAINT"), strings.HasPrefix(t, "PROPERTIES"):
			continue
		case strings.HasPrefix(t, "INVARIANTS"):
			line = "INVARIANTS NotReached"
		case strings.HasPrefix(t, "EmitLabels"):
			line = "  EmitLabels = FALSE"
		case strings.HasPrefix(t, "TgtOp"):
			line = fmt.Sprintf("  TgtOp = %q", l.Op)
		case strings.HasPrefix(t, "TgtCls"):
			line = fmt.Sprintf("  TgtCls = %q", l.Cls)
		case strings.HasPrefix(t, "TgtN"):
			line = fmt.Sprintf("  TgtN = %d", l.N)
		case strings.HasPrefix(t, "TgtK"):
			line = fmt.Sprintf("  TgtK = %d", l.K)
		case strings.HasPrefix(t, "TgtV"):
			line = fmt.Sprintf("  TgtV = %q", l.V)
		}
		out = append(out, line)
	}
	res, err := tlc.Run(tlc.Options{SpecDir: specDir(), Module: "GluonDB", CfgText: strings.Join(out, "\n"),
		Workers: 3, Timeout: timeout, KeepOutput: true, HeapGB: 6, DumpTrace: "witness.json"})
	if err != nil {
		return nil, err
	}
	if res.Violated != "NotReached" || len(res.TraceJSON) == 0 {
		return nil, fmt.Errorf("directed search for %s in %s: violated=%q error=%q timeout=%v\n%s", key, best.cfg, res.Violated, res.Error, res.TimedOut, tail(res.Output, 1500))
	}
	var dump struct {
		Counterexample struct {
			State [][]json.RawMessage `json:"state"`
		} `json:"counterexample"`
	}
	if err := json.Unmarshal(res.TraceJSON, &dump); err != nil {
		return nil, fmt.Errorf("directed search for %s: trace does not decode: %v", key, err)
	}
	b := &behaviour{}
	for i, st := range dump.Counterexample.State {
		if i == 0 || len(st) != 2 {
			continue // the initial state
		}
		var v struct {
			Last act             `json:"last"`
			Tx   string          `json:"tx"`
			DB   json.RawMessage `json:"db"`
		}
		if err := json.Unmarshal(st[1], &v); err != nil {
			return nil, fmt.Errorf("directed search for %s: state %d does not decode: %v", key, i+1, err)
		}
		b.Trace = append(b.Trace, &step{Act: v.Last, Tx: v.Tx, DB: v.DB})
	}
	if len(b.Trace) == 0 {
		return nil, fmt.Errorf("directed search for %s: empty behaviour", key)
	}
	return b, nil
}

func tail(s string, n int) string {
	if len(s) > n {
		return s[len(s)-n:]
	}
	return s
}

// simulate runs TLC in simulation mode and hands every behaviour it prints to out.
func simulate(seed int64, num int, out chan<- *behaviour, simStates *int64, mu *sync.Mutex) error {
	seen := map[string]bool{}
	res, err := tlc.Run(tlc.Options{SpecDir: specDir(), Module: "GluonDB", Cfg: filepath.Join(specDir(), "cfg", "GluonDB.sim.cfg"),
		Workers: 1, Simulate: true, SimNum: num, SimDepth: 400, Seed: seed, Timeout: 25 * time.Minute, KeepOutput: true, HeapGB: 4,
		OnJSON: func(raw []byte) {
			var b behaviour
			if err := json.Unmarshal(raw, &b); err != nil || len(b.Trace) == 0 {
				return
			}
			// TLC evaluates the invariant on every candidate successor: keep one behaviour per prefix
			h := sha1.New()
			for _, s := range b.Trace[:len(b.Trace)-1] {
				h.Write(s.DB)
				fmt.Fprint(h, s.Act.Op, string(s.Act.R.Val))
			}
			k := string(h.Sum(nil))
			if seen[k] {
				return
			}
			seen[k] = true
			out <- &b
		}})
	if err != nil {
		return err
	}
	if res.Violated != "" || res.Error != "" {
		return fmt.Errorf("TLC simulation reported violated=%q error=%q (model-level)\n%s", res.Violated, res.Error, tail(res.Output, 2000))
	}
	mu.Lock()
	*simStates += res.Generated
	mu.Unlock()
	return nil
}

// ---- the check ----

type tierCfg struct {
	families   []family
	famTimeout time.Duration
	generators int
	perGen     int
	workers    int
	budget     time.Duration
	extra      int // behaviours per generator in the extra rounds
}

func tierOf(tier string) tierCfg {
	if tier == "thorough" {
		return tierCfg{
			families: []family{{"GluonDB.mailbox.quick.cfg", 2}, {"GluonDB.mailbox.thorough.cfg", 2}, {"GluonDB.message.thorough.cfg", 2}, {"GluonDB.membership.thorough.cfg", 3},
				{"GluonDB.twobox.thorough.cfg", 2}, {"GluonDB.threemsg.thorough.cfg", 2}, {"GluonDB.tx.thorough.cfg", 2}, {"GluonDB.remoteid.quick.cfg", 2}},
			famTimeout: 15 * time.Minute, generators: 4, perGen: 1500, workers: 8, budget: 14 * time.Minute, extra: 800}
	}
	return tierCfg{
		families:   []family{{"GluonDB.mailbox.quick.cfg", 2}, {"GluonDB.message.quick.cfg", 2}, {"GluonDB.membership.quick.cfg", 2}, {"GluonDB.remoteid.quick.cfg", 2}},
		famTimeout: 3 * time.Minute, generators: 2, perGen: 150, workers: 6, budget: 55 * time.Second}
}

func run(r *ev.Run, tier, replay string) {
	st := newStats(r)
	r.Set("rule", "one evaluation = one operation of db.ReadOnly/db.Transaction executed on a real SQLite index inside a TLC-generated behaviour, reply and (at every commit/abort, and after every write operation in split transactions) all raw tables compared with GluonDB.tla; "+
		"distinct = distinct (shape, model state before, arguments, clone-group sizes); non-trivial = judged by the model and executed on a database that holds a mailbox or a message (or creating one)")
	r.Assumptions = []string{
		"an abstract message stands for a clone group of g identical concrete messages (g in 1,2,499,500,501,999,1000,1001,2001) always passed together and in order; single-id operations are called once per clone (reads on large groups: 4 clones)",
		"the relations are observable through the independent read-only connection only when no write transaction is open: inside a multi-operation transaction replies (including reads of uncommitted data) are compared per operation and the tables at commit/abort; 60% of the committed transactions are executed with every operation in a Write of its own so that the tables are compared after every single operation",
		"MarkMessageAsDeletedAndAssignRandomRemoteID is only judged for a message that is in no mailbox (how gluon uses it); GetMailboxUID of a mailbox that does not exist is not judged",
		"duplicate ids inside one argument list, remote ids passed in MessageIDPair that differ from the message's remote id, and flag strings that differ only in case are outside the enumerated domain",
		"a write operation that returns an error ends its transaction (the error is returned from the Write callback, as gluon does); the state after a failed statement inside a still open transaction is not judged",
	}
	if replay != "" {
		runReplay(r, st, replay)
		return
	}
	tc := tierOf(tier)
	seed := ev.Seed()
	start := time.Now()

	// (a) exhaustive family runs, in the background
	var universe map[string]bool
	var infos []*famInfo
	famOK := false
	famDone := make(chan struct{})
	go func() {
		universe, infos, famOK = runFamilies(r, tc.families, tc.famTimeout)
		close(famDone)
	}()

	// (b) behaviours from simulation, replayed by a pool of workers
	var simStates, nb int64
	var smu sync.Mutex
	exhausted := false
	batch := func(round int, perGen int, smallOnly bool) {
		ch := make(chan *behaviour, 64)
		var gwg sync.WaitGroup
		for g := 0; g < tc.generators; g++ {
			gwg.Add(1)
			go func(g int) {
				defer gwg.Done()
				if err := simulate(seed*1000003+int64(g)*7919+int64(round)*611953, perGen, ch, &simStates, &smu); err != nil {
					r.Machinery("tlc simulate: %v", err)
				}
			}(g)
		}
		go func() { gwg.Wait(); close(ch) }()
		var wwg sync.WaitGroup
		for k := 0; k < tc.workers; k++ {
			wwg.Add(1)
			go func(k int) {
				defer wwg.Done()
				rnd := rand.New(rand.NewSource(seed*7919 + int64(k)*104729 + int64(round)*15485863))
				for b := range ch {
					if time.Since(start) > tc.budget {
						smu.Lock()
						exhausted = true
						smu.Unlock()
						continue // drain
					}
					pl := makePlan(rnd, smallOnly, b)
					replayOne(r, st, b, pl)
					smu.Lock()
					nb++
					smu.Unlock()
				}
			}(k)
		}
		wwg.Wait()
	}
	batch(0, tc.perGen, false)
	<-famDone
	if !famOK {
		return
	}
	// thorough: every label of the bounded model must be executed. First more (small) random behaviours, then, for
	// what is still missing, the shortest witness behaviour of each label straight from TLC.
	missingNow := func() []string {
		st.mu.Lock()
		defer st.mu.Unlock()
		var out []string
		for k := range universe {
			if st.shapes[k] == 0 {
				out = append(out, k)
			}
		}
		sort.Strings(out)
		return out
	}
	rounds := 0
	for tier == "thorough" && rounds < 2 && time.Since(start) < tc.budget && len(missingNow()) > 0 {
		rounds++
		batch(rounds, tc.extra, true)
	}
	witnesses := 0
	if tier == "thorough" || time.Since(start) < 40*time.Second {
		miss := missingNow()
		sem := make(chan struct{}, 3)
		var dwg sync.WaitGroup
		rnd := rand.New(rand.NewSource(seed))
		var dmu sync.Mutex
		for _, k := range miss {
			dwg.Add(1)
			go func(k string) {
				defer dwg.Done()
				sem <- struct{}{}
				defer func() { <-sem }()
				dt := 40 * time.Second
				if tier == "thorough" {
					dt = 8 * time.Minute
				}
				b, err := directed(infos, k, dt)
				if err != nil {
					if tier == "thorough" {
						r.Machinery("%v", err)
					} else {
						r.Add("directed_searches_unfinished", 1)
					}
					return
				}
				dmu.Lock()
				pl := makePlan(rnd, true, b)
				witnesses++
				dmu.Unlock()
				replayOne(r, st, b, pl)
				smu.Lock()
				nb++
				smu.Unlock()
			}(k)
		}
		dwg.Wait()
	}
	r.Set("directed_witness_behaviours", witnesses)
	r.Set("extra_rounds_for_label_coverage", rounds)
	report(r, st, universe, nb, simStates, exhausted, tier)
}

func replayOne(r *ev.Run, st *stats, b *behaviour, pl *plan) {
	rp := &replayer{st: st, b: b, pl: pl}
	guarded := func(x *replayer) (merr error) {
		defer func() {
			if p := recover(); p != nil {
				merr = fmt.Errorf("harness panic while replaying: %v", p)
			}
		}()
		return x.run()
	}
	if merr := guarded(rp); merr != nil {
		r.Machinery("%v", merr)
	}
	findings := rp.findings
	// a divergence seen inside or at the end of a multi-operation transaction: find the operation that diverged first
	firstReal := -1
	for _, f := range findings {
		if !f.machinery && (firstReal < 0 || f.step < firstReal) {
			firstReal = f.step
		}
	}
	if firstReal >= 0 {
		rp2 := &replayer{st: newStats(ev.New("C08-attribution", "quick", "model_checking")), b: b, pl: pl, attrib: true, limit: firstReal}
		if merr := guarded(rp2); merr == nil && len(rp2.findings) > 0 {
			cut := len(b.Trace)
			for _, f := range rp2.findings {
				if !f.machinery && f.step < cut {
					cut = f.step
				}
			}
			if cut <= firstReal || cut < len(b.Trace) {
				var merged []finding
				for _, f := range findings {
					if f.step < cut {
						merged = append(merged, f)
					}
				}
				for _, f := range rp2.findings {
					if !f.machinery {
						merged = append(merged, f)
					}
				}
				findings = merged
			}
		}
	}
	st.mu.Lock()
	st.behaviour++
	first := st.behaviour <= 2
	st.mu.Unlock()
	for _, f := range findings {
		if f.machinery {
			r.Machinery("%s", f.detail)
			continue
		}
		// keep the behaviour up to the end of the transaction that contains the failing step
		endAt := f.step + 1
		for endAt < len(b.Trace) && b.Trace[endAt-1].Tx != "none" {
			endAt++
		}
		r.Violate(f.key, f.detail+"\nbehaviour up to there: "+describe(b.Trace[:f.step+1]),
			map[string]any{"trace": b.Trace[:endAt], "plan": pl, "step": f.step})
	}
	if first {
		r.Sample(map[string]any{"clone_group_sizes": pl.Sizes, "split_transactions": pl.Split, "steps": describeList(b.Trace, 40)})
	}
}

func describe(steps []*step) string { return strings.Join(describeList(steps, 200), " ; ") }

func describeList(steps []*step, max int) []string {
	var out []string
	if len(steps) > max {
		out = append(out, fmt.Sprintf("(%d earlier steps)", len(steps)-max))
		steps = steps[len(steps)-max:]
	}
	for _, s := range steps {
		if s.Act.Kind == "tx" {
			out = append(out, s.Act.Op)
			continue
		}
		a, _ := json.Marshal(s.Act.A)
		v := ""
		var cb bytes.Buffer
		if json.Compact(&cb, s.Act.R.Val) == nil && cb.Len() > 0 && cb.Len() < 120 {
			v = " " + cb.String()
		}
		out = append(out, fmt.Sprintf("%s%s -> %s%s", s.Act.Op, a, s.Act.R.Cls, v))
	}
	return out
}

func runReplay(r *ev.Run, st *stats, path string) {
	b, err := os.ReadFile(path)
	if err != nil {
		r.Machinery("replay: %v", err)
		return
	}
	var rp struct {
		Replay struct {
			Trace []*step `json:"trace"`
			Plan  *plan   `json:"plan"`
		} `json:"replay"`
	}
	if err := json.Unmarshal(b, &rp); err != nil || len(rp.Replay.Trace) == 0 || rp.Replay.Plan == nil {
		r.Machinery("replay file has no behaviour: %v", err)
		return
	}
	replayOne(r, st, &behaviour{Trace: rp.Replay.Trace}, rp.Replay.Plan)
	r.Set("states", int64(len(rp.Replay.Trace)))
	r.Set("transitions", int64(len(rp.Replay.Trace)))
	r.Set("traces_validated_against_impl", int64(1))
	r.Set("steps_replayed", st.steps)
}

func report(r *ev.Run, st *stats, universe map[string]bool, nb, simStates int64, exhausted bool, tier string) {
	st.mu.Lock()
	defer st.mu.Unlock()
	covered, missing := 0, []string{}
	blockedOnly := []string{}
	for k := range universe {
		if st.shapes[k] > 0 {
			covered++
		} else if st.blocked[k] > 0 {
			blockedOnly = append(blockedOnly, k)
		} else {
			missing = append(missing, k)
		}
	}
	sort.Strings(missing)
	sort.Strings(blockedOnly)
	extra := 0
	for k := range st.shapes {
		if !universe[k] {
			extra++
		}
	}
	ops := map[string]bool{}
	for k := range st.shapes {
		ops[strings.SplitN(k, "|", 2)[0]] = true
	}
	r.Set("traces_validated_against_impl", nb)
	r.Set("steps_replayed", st.steps)
	r.Set("states_visited_in_simulation", simStates)
	r.Set("state_comparisons_with_raw_tables", st.stateCmp)
	r.Set("operations_executed", len(ops))
	r.Set("shape_universe_bounded_model", len(universe))
	r.Set("shapes_of_universe_executed", covered)
	r.Set("shapes_executed_beyond_universe", extra)
	r.Set("shapes_not_reached", missing)
	r.Set("shapes_only_reached_after_a_divergence", blockedOnly)
	r.Set("behaviours_cut_short_by_a_divergence", st.cut)
	r.Set("transactions_whole", st.wholeTx)
	r.Set("transactions_split_per_operation", st.splitTx)
	r.Set("aborts", st.aborts)
	r.Set("list_operations_by_size_class", st.sizeCov)
	gc := map[string]map[string]int64{}
	for op, m := range st.groupCov {
		gc[op] = map[string]int64{}
		for g, n := range m {
			gc[op][fmt.Sprint(g)] = n
		}
	}
	r.Set("list_operations_by_clone_group_size", gc)
	r.Set("budget_exhausted", exhausted)
	r.Set("exhaustive", false)
	if tier == "thorough" && len(missing) > 0 {
		r.Machinery("thorough: %d of %d (operation, reply class, shape) labels of the bounded model were never executed: %v", len(missing), len(universe), missing)
	}
}
