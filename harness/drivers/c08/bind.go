package c08

// Binding between the abstract values of GluonDB.tla and a real SQLite index:
// concretisation of arguments (clone groups, remote ids, flags), projection of real
// replies and of the raw tables back to abstract values. No operation semantics here.

import (
	"context"
	"crypto/sha1"
	"database/sql"
	"encoding/hex"
	"encoding/json"
	"fmt"
	"os"
	"path/filepath"
	"sort"
	"strconv"
	"strings"
	"time"

	"github.com/ProtonMail/gluon/db"
	"github.com/ProtonMail/gluon/imap"
	"github.com/ProtonMail/gluon/internal/db_impl/sqlite3"
)

// ---- the model's relations as printed by TLC ----

type mRow struct {
	UID int    `json:"uid"`
	M   string `json:"m"`
	Del bool   `json:"del"`
	Rec bool   `json:"rec"`
}
type mBox struct {
	Ex   bool     `json:"ex"`
	Rid  string   `json:"rid"`
	Name string   `json:"name"`
	UV   int      `json:"uv"`
	Sub  bool     `json:"sub"`
	Fl   []string `json:"fl"`
	Pf   []string `json:"pf"`
	At   []string `json:"at"`
	Rows []mRow   `json:"rows"`
	Next int      `json:"next"`
}
type mMsg struct {
	Ex  bool     `json:"ex"`
	Rid string   `json:"rid"`
	Del bool     `json:"del"`
	Fl  []string `json:"fl"`
}
type mPair struct {
	M string `json:"m"`
	B int    `json:"b"`
}
type mSub struct {
	Name string `json:"name"`
	Rid  string `json:"rid"`
}

// msgMap: TLC prints a function with an empty domain (a family without messages) as [].
type msgMap map[string]mMsg

func (m *msgMap) UnmarshalJSON(b []byte) error {
	if t := strings.TrimSpace(string(b)); strings.HasPrefix(t, "[") {
		*m = msgMap{}
		return nil
	}
	var x map[string]mMsg
	if err := json.Unmarshal(b, &x); err != nil {
		return err
	}
	*m = x
	return nil
}

type mDB struct {
	MB       []mBox  `json:"mb"`
	NextBox  int     `json:"nextBox"`
	Msgs     msgMap  `json:"msgs"`
	M2B      []mPair `json:"m2b"`
	Dsubs    []mSub  `json:"dsubs"`
	Settings string  `json:"settings"`
}

func (d *mDB) normalize() {
	for i := range d.MB {
		sort.Strings(d.MB[i].Fl)
		sort.Strings(d.MB[i].Pf)
		sort.Strings(d.MB[i].At)
	}
	for k, m := range d.Msgs {
		sort.Strings(m.Fl)
		d.Msgs[k] = m
	}
	sort.Slice(d.M2B, func(i, j int) bool {
		if d.M2B[i].M != d.M2B[j].M {
			return d.M2B[i].M < d.M2B[j].M
		}
		return d.M2B[i].B < d.M2B[j].B
	})
	sort.Slice(d.Dsubs, func(i, j int) bool { return d.Dsubs[i].Name < d.Dsubs[j].Name })
}

func (d *mDB) box(b int) *mBox {
	if b >= 1 && b <= len(d.MB) && d.MB[b-1].Ex {
		return &d.MB[b-1]
	}
	return nil
}

func (d *mDB) empty() bool {
	for _, b := range d.MB {
		if b.Ex {
			return false
		}
	}
	for _, m := range d.Msgs {
		if m.Ex {
			return false
		}
	}
	return true
}

func strsEq(a, b []string) bool {
	if len(a) != len(b) {
		return false
	}
	for i := range a {
		if a[i] != b[i] {
			return false
		}
	}
	return true
}

// diffDB names the first relation/attribute in which the real state (got) differs from the model (exp).
func diffDB(exp, got *mDB) (what, detail string) {
	if exp.NextBox != got.NextBox {
		return "mailboxes.autoincrement", fmt.Sprintf("next mailbox id: model %d, database %d", exp.NextBox, got.NextBox)
	}
	for i := range exp.MB {
		e := exp.MB[i]
		var g mBox
		if i < len(got.MB) {
			g = got.MB[i]
		}
		id := i + 1
		switch {
		case e.Ex != g.Ex:
			return "mailboxes.existence", fmt.Sprintf("mailbox %d: model exists=%v, database exists=%v", id, e.Ex, g.Ex)
		case !e.Ex:
			continue
		case e.Rid != g.Rid:
			return "mailboxes.remote_id", fmt.Sprintf("mailbox %d: model %q, database %q", id, e.Rid, g.Rid)
		case e.Name != g.Name:
			return "mailboxes.name", fmt.Sprintf("mailbox %d: model %q, database %q", id, e.Name, g.Name)
		case e.UV != g.UV:
			return "mailboxes.uid_validity", fmt.Sprintf("mailbox %d: model %d, database %d", id, e.UV, g.UV)
		case e.Sub != g.Sub:
			return "mailboxes.subscribed", fmt.Sprintf("mailbox %d: model %v, database %v", id, e.Sub, g.Sub)
		case !strsEq(e.Fl, g.Fl):
			return "mailbox_flags", fmt.Sprintf("mailbox %d: model %v, database %v", id, e.Fl, g.Fl)
		case !strsEq(e.Pf, g.Pf):
			return "mailbox_perm_flags", fmt.Sprintf("mailbox %d: model %v, database %v", id, e.Pf, g.Pf)
		case !strsEq(e.At, g.At):
			return "mailbox_attrs", fmt.Sprintf("mailbox %d: model %v, database %v", id, e.At, g.At)
		case e.Next != g.Next:
			return "mailbox_rows.autoincrement", fmt.Sprintf("mailbox %d: next uid (abstract) model %d, database %d", id, e.Next, g.Next)
		}
		if len(e.Rows) != len(g.Rows) {
			return "mailbox_rows", fmt.Sprintf("mailbox %d: model rows %v, database rows %v", id, e.Rows, g.Rows)
		}
		for j := range e.Rows {
			if e.Rows[j] != g.Rows[j] {
				w := "mailbox_rows"
				if e.Rows[j].UID == g.Rows[j].UID && e.Rows[j].M == g.Rows[j].M {
					if e.Rows[j].Del != g.Rows[j].Del {
						w = "mailbox_rows.deleted"
					} else {
						w = "mailbox_rows.recent"
					}
				}
				return w, fmt.Sprintf("mailbox %d row %d: model %+v, database %+v", id, j+1, e.Rows[j], g.Rows[j])
			}
		}
	}
	for _, name := range sortedKeys(exp.Msgs) {
		e, g := exp.Msgs[name], got.Msgs[name]
		switch {
		case e.Ex != g.Ex:
			return "messages.existence", fmt.Sprintf("message %s: model exists=%v, database exists=%v", name, e.Ex, g.Ex)
		case !e.Ex:
			continue
		case e.Rid != g.Rid:
			return "messages.remote_id", fmt.Sprintf("message %s: model %q, database %q", name, e.Rid, g.Rid)
		case e.Del != g.Del:
			return "messages.deleted", fmt.Sprintf("message %s: model %v, database %v", name, e.Del, g.Del)
		case !strsEq(e.Fl, g.Fl):
			return "message_flags", fmt.Sprintf("message %s: model %v, database %v", name, e.Fl, g.Fl)
		}
	}
	if fmt.Sprint(exp.M2B) != fmt.Sprint(got.M2B) {
		return "message_to_mailbox", fmt.Sprintf("model %v, database %v", exp.M2B, got.M2B)
	}
	if fmt.Sprint(exp.Dsubs) != fmt.Sprint(got.Dsubs) {
		return "deleted_subscriptions", fmt.Sprintf("model %v, database %v", exp.Dsubs, got.Dsubs)
	}
	if exp.Settings != got.Settings {
		return "connector_settings", fmt.Sprintf("model %q, database %q", exp.Settings, got.Settings)
	}
	return "", ""
}

func sortedKeys[V any](m map[string]V) []string {
	ks := make([]string, 0, len(m))
	for k := range m {
		ks = append(ks, k)
	}
	sort.Strings(ks)
	return ks
}

// ---- the world: one real index in a temp dir plus the binding tables ----

type cloneRef struct {
	m string
	i int
}

type world struct {
	ctx    context.Context
	dir    string
	client db.Client
	raw    *sql.DB
	g      map[string]int // clone-group size per abstract message; "Z": size of the group of unknown remote mailbox ids
	ids    map[string][]imap.InternalMessageID
	ref    map[string]cloneRef // uuid text -> clone
	order  []string            // abstract messages in the fixed order
	owner  map[int][]string    // mailbox -> owner of abstract uid u at index u-1 (history of assignments)
	maxBox int
	dver   int64
}

const (
	boxRidPrefix  = "box-"
	boxNamePrefix = "Fld/"
	msgRidPrefix  = "rid-"
	setPrefix     = "settings:"
	padRid        = "Z"
)

var flagText = map[string]string{"f1": `\Seen`, "f2": `\Flagged`, "recent": `\Recent`}
var flagAbs = map[string]string{`\Seen`: "f1", `\Flagged`: "f2", `\Recent`: "recent"}

func newWorld(g map[string]int, order []string, maxBox int) (*world, error) {
	dir, err := os.MkdirTemp("", "verif-c08-")
	if err != nil {
		return nil, err
	}
	w := &world{ctx: context.Background(), dir: dir, g: g, order: order, maxBox: maxBox,
		ids: map[string][]imap.InternalMessageID{}, ref: map[string]cloneRef{}, owner: map[int][]string{}}
	client, _, err := sqlite3.NewBuilder().New(dir, "user")
	if err != nil {
		os.RemoveAll(dir)
		return nil, err
	}
	w.client = client
	if err := client.Init(w.ctx, imap.NewIncrementalUIDValidityGenerator()); err != nil {
		w.close()
		return nil, err
	}
	raw, err := sql.Open("sqlite3", "file:"+filepath.Join(dir, "user.db")+"?mode=ro&_busy_timeout=10000")
	if err != nil {
		w.close()
		return nil, err
	}
	raw.SetMaxOpenConns(1)
	w.raw = raw
	for _, m := range order {
		n := g[m]
		ids := make([]imap.InternalMessageID, n)
		for i := 0; i < n; i++ {
			// a deterministic uuid per clone (the sqlite3 driver itself is registered by gluon's sqlite3 package)
			h := sha1.Sum([]byte("c08 clone " + m + "#" + strconv.Itoa(i)))
			h[6] = (h[6] & 0x0f) | 0x50
			h[8] = (h[8] & 0x3f) | 0x80
			x := hex.EncodeToString(h[:16])
			id, err := imap.InternalMessageIDFromString(x[0:8] + "-" + x[8:12] + "-" + x[12:16] + "-" + x[16:20] + "-" + x[20:32])
			if err != nil {
				w.close()
				return nil, err
			}
			ids[i] = id
			w.ref[id.String()] = cloneRef{m, i}
		}
		w.ids[m] = ids
	}
	if _, err := w.dataVersion(); err != nil {
		w.close()
		return nil, fmt.Errorf("raw connection: %w", err)
	}
	return w, nil
}

func (w *world) close() {
	if w.raw != nil {
		w.raw.Close()
	}
	if w.client != nil {
		w.client.Close()
	}
	os.RemoveAll(w.dir)
}

// dataVersion reports whether the database file changed since the previous call (PRAGMA data_version on the raw connection).
func (w *world) dataVersion() (changed bool, err error) {
	var v int64
	if err := w.raw.QueryRow("PRAGMA data_version").Scan(&v); err != nil {
		return false, err
	}
	changed = v != w.dver
	w.dver = v
	return changed, nil
}

// ---- concretisation ----

func boxRid(r string) imap.MailboxID { return imap.MailboxID(boxRidPrefix + r) }
func boxName(n string) string        { return boxNamePrefix + n }
func msgRid(r string, i int) imap.MessageID {
	return imap.MessageID(msgRidPrefix + r + "-" + strconv.Itoa(i))
}
func flagSet(abs []string) imap.FlagSet {
	fs := imap.NewFlagSet()
	for _, f := range abs {
		fs.AddToSelf(flagText[f])
	}
	return fs
}
func flagTexts(abs []string) []string {
	out := make([]string, len(abs))
	for i, f := range abs {
		out[i] = flagText[f]
	}
	return out
}

func (w *world) msgDate(m string) time.Time {
	for i, x := range w.order {
		if x == m {
			return time.Unix(1600000000+int64(i)*86400, 0).UTC()
		}
	}
	return time.Unix(1500000000, 0).UTC()
}
func msgSize(m string, i int) int    { return 100 + len(m) + i%7 }
func msgBody(m string, i int) string { return "body " + m + "#" + strconv.Itoa(i) }
func msgStruct(m string) string      { return "structure " + m }
func msgEnv(m string) string         { return "envelope " + m }

func (w *world) req(m string, i int, flags []string) *db.CreateMessageReq {
	return &db.CreateMessageReq{
		Message:     imap.Message{ID: msgRid(m, i), Flags: flagSet(flags), Date: w.msgDate(m)},
		InternalID:  w.ids[m][i],
		LiteralSize: msgSize(m, i), Body: msgBody(m, i), Structure: msgStruct(m), Envelope: msgEnv(m),
	}
}

func (w *world) idList(ml []string) []imap.InternalMessageID {
	var out []imap.InternalMessageID
	for _, m := range ml {
		out = append(out, w.ids[m]...)
	}
	return out
}

func (w *world) listLen(ml []string) int {
	n := 0
	for _, m := range ml {
		n += w.g[m]
	}
	return n
}

// curRid is the concrete remote id clone i of m carries according to the model state pre.
// A random remote id (MarkMessageAsDeletedAndAssignRandomRemoteID) cannot be predicted: it is asked from the
// index itself (binding only; the value is checked against the raw tables elsewhere).
func (w *world) curRid(pre *mDB, m string, i int, ro db.ReadOnly) imap.MessageID {
	mm := pre.Msgs[m]
	if !mm.Ex {
		return msgRid(m, i)
	}
	if mm.Rid == "rnd" {
		if ro != nil {
			if r, err := ro.GetMessageRemoteID(w.ctx, w.ids[m][i]); err == nil {
				return r
			}
		}
		return imap.MessageID("DELETED-unknown-" + m + "-" + strconv.Itoa(i))
	}
	return msgRid(mm.Rid, i)
}

func (w *world) pairList(pre *mDB, ml []string, ro db.ReadOnly) []db.MessageIDPair {
	var out []db.MessageIDPair
	for _, m := range ml {
		for i, id := range w.ids[m] {
			out = append(out, db.MessageIDPair{InternalID: id, RemoteID: w.curRid(pre, m, i, ro)})
		}
	}
	return out
}

// holder is the message that carries abstract remote id r in pre ("" if none).
func holder(pre *mDB, r string) string {
	for _, m := range sortedKeys(pre.Msgs) {
		if pre.Msgs[m].Ex && pre.Msgs[m].Rid == r {
			return m
		}
	}
	return ""
}

// ---- abstract uids ----

// learn records which message owns which abstract uid, from a model state.
func (w *world) learn(d *mDB) {
	for i, b := range d.MB {
		if !b.Ex {
			continue
		}
		id := i + 1
		for _, r := range b.Rows {
			for len(w.owner[id]) < r.UID {
				w.owner[id] = append(w.owner[id], "")
			}
			w.owner[id][r.UID-1] = r.M
		}
	}
}

func (w *world) snapshotOwner() map[int][]string {
	c := map[int][]string{}
	for k, v := range w.owner {
		c[k] = append([]string(nil), v...)
	}
	return c
}

// concUID is the first concrete uid of abstract uid u in mailbox b (u may be the next uid).
func (w *world) concUID(b, u int) (int, bool) {
	own := w.owner[b]
	if u < 1 || u > len(own)+1 {
		return 0, false
	}
	c := 1
	for v := 1; v < u; v++ {
		if own[v-1] == "" {
			return 0, false
		}
		c += w.g[own[v-1]]
	}
	return c, true
}

// absUID maps a concrete uid of mailbox b to (abstract uid, clone index, owner).
func (w *world) absUID(b, c int) (u, i int, m string, ok bool) {
	lo := 1
	for v, name := range w.owner[b] {
		if name == "" {
			return 0, 0, "", false
		}
		n := w.g[name]
		if c >= lo && c < lo+n {
			return v + 1, c - lo, name, true
		}
		lo += n
	}
	return 0, 0, "", false
}

func (w *world) absNext(b, c int) (int, bool) {
	lo := 1
	if c == lo {
		return 1, true
	}
	for v, name := range w.owner[b] {
		if name == "" {
			return 0, false
		}
		lo += w.g[name]
		if c == lo {
			return v + 2, true
		}
	}
	return 0, false
}

// ---- abstraction of real values ----

func absBoxRid(r string) string {
	if strings.HasPrefix(r, boxRidPrefix) {
		return strings.TrimPrefix(r, boxRidPrefix)
	}
	return "?" + r
}
func absBoxName(n string) string {
	if strings.HasPrefix(n, boxNamePrefix) {
		return strings.TrimPrefix(n, boxNamePrefix)
	}
	return "?" + n
}

// absMsgRid abstracts the remote id found on clone i.
func absMsgRid(r string, i int) string {
	if strings.HasPrefix(r, "DELETED-") {
		return "rnd"
	}
	suffix := "-" + strconv.Itoa(i)
	if strings.HasPrefix(r, msgRidPrefix) && strings.HasSuffix(r, suffix) {
		return strings.TrimSuffix(strings.TrimPrefix(r, msgRidPrefix), suffix)
	}
	return "?" + r
}
func absFlags(texts []string) []any {
	out := make([]any, 0, len(texts))
	for _, t := range texts {
		if a, ok := flagAbs[t]; ok {
			out = append(out, a)
		} else {
			out = append(out, "?"+t)
		}
	}
	return out
}
func absFlagStrings(texts []string) []string {
	out := make([]string, 0, len(texts))
	for _, t := range texts {
		if a, ok := flagAbs[t]; ok {
			out = append(out, a)
		} else {
			out = append(out, "?"+t)
		}
	}
	sort.Strings(out)
	return out
}
func splitFlags(s string) []string {
	if s == "" {
		return nil
	}
	return strings.Split(s, ",")
}
func mbRec(m *db.Mailbox) map[string]any {
	return map[string]any{"id": int(m.ID), "rid": absBoxRid(string(m.RemoteID)), "name": absBoxName(m.Name), "uv": int(m.UIDValidity), "sub": m.Subscribed}
}

// cloneItem is one element of a real reply that belongs to clone i of message m; val is its abstract value.
type cloneItem struct {
	m   string
	i   int
	val any
}

// group folds per-clone items into one abstract value per message: all g clones must be present
// exactly once with the same abstract value. ordered: the items must come group by group, clones in order.
func (w *world) group(items []cloneItem, ordered bool) ([]any, string) {
	type acc struct {
		seen  []bool
		n     int
		key   string
		val   any
		first int
	}
	by := map[string]*acc{}
	var names []string
	for pos, it := range items {
		a := by[it.m]
		k := canonJSON(it.val)
		if a == nil {
			a = &acc{seen: make([]bool, w.g[it.m]), key: k, val: it.val, first: pos}
			by[it.m] = a
			names = append(names, it.m)
		}
		if it.i < 0 || it.i >= len(a.seen) {
			return nil, fmt.Sprintf("%s: clone index %d out of range", it.m, it.i)
		}
		if a.seen[it.i] {
			return nil, fmt.Sprintf("%s: clone %d appears twice", it.m, it.i)
		}
		if k != a.key {
			return nil, fmt.Sprintf("%s: clones disagree: clone %d has %s, an earlier clone has %s", it.m, it.i, k, a.key)
		}
		if ordered && pos != a.first+it.i {
			return nil, fmt.Sprintf("%s: clone %d at position %d, expected at %d (order of the reply)", it.m, it.i, pos, a.first+it.i)
		}
		a.seen[it.i] = true
		a.n++
	}
	out := make([]any, 0, len(names))
	for _, m := range names {
		a := by[m]
		if a.n != w.g[m] {
			return nil, fmt.Sprintf("%s: %d of its %d clones are in the reply", m, a.n, w.g[m])
		}
		out = append(out, a.val)
	}
	return out, ""
}

// ---- the raw tables, read through an independent read-only connection ----

type rawMsg struct {
	rid, body, structure, envelope string
	date                           time.Time
	size                           int
	deleted                        bool
	flags                          []string
}

// readRaw reads every table with plain SQL and projects it onto the model's relations.
// exp (the model state) is only used to know which remote id the copies kept in the mailbox rows should show.
func (w *world) readRaw(exp *mDB) (got *mDB, softRel, soft string, err error) {
	got = &mDB{MB: make([]mBox, w.maxBox), Msgs: msgMap{}, NextBox: 1, Settings: "null"}
	for i := range got.MB {
		got.MB[i].Next = 1
		got.MB[i].Rows = []mRow{}
	}
	for _, m := range w.order {
		got.Msgs[m] = mMsg{}
	}
	q := func(query string, scan func(*sql.Rows) error) error {
		rows, err := w.raw.Query(query)
		if err != nil {
			return fmt.Errorf("%s: %w", query, err)
		}
		defer rows.Close()
		for rows.Next() {
			if err := scan(rows); err != nil {
				return fmt.Errorf("%s: %w", query, err)
			}
		}
		return rows.Err()
	}
	// schema: which per-mailbox tables exist
	tables := map[int]bool{}
	if err := q("SELECT name FROM sqlite_master WHERE type = 'table'", func(r *sql.Rows) error {
		var n string
		if err := r.Scan(&n); err != nil {
			return err
		}
		if strings.HasPrefix(n, "mailbox_message_") {
			id, err := strconv.Atoi(strings.TrimPrefix(n, "mailbox_message_"))
			if err != nil {
				return err
			}
			tables[id] = true
		}
		return nil
	}); err != nil {
		return nil, "", "", err
	}
	seq := map[string]int{}
	if err := q("SELECT name, seq FROM sqlite_sequence", func(r *sql.Rows) error {
		var n string
		var s int
		if err := r.Scan(&n, &s); err != nil {
			return err
		}
		seq[n] = s
		return nil
	}); err != nil {
		return nil, "", "", err
	}
	got.NextBox = seq["mailboxes_v2"] + 1
	bad := func(rel, format string, a ...any) {
		if soft == "" {
			soft, softRel = fmt.Sprintf(format, a...), rel
		}
	}
	if err := q("SELECT id, remote_id, name, uid_validity, subscribed FROM mailboxes_v2", func(r *sql.Rows) error {
		var id, uv int
		var rid, name string
		var sub bool
		if err := r.Scan(&id, &rid, &name, &uv, &sub); err != nil {
			return err
		}
		if id < 1 || id > w.maxBox {
			bad("mailboxes.existence", "mailbox id %d outside 1..%d", id, w.maxBox)
			return nil
		}
		b := &got.MB[id-1]
		b.Ex, b.Rid, b.Name, b.UV, b.Sub = true, absBoxRid(rid), absBoxName(name), uv, sub
		return nil
	}); err != nil {
		return nil, "", "", err
	}
	for id := range tables {
		if id < 1 || id > w.maxBox || !got.MB[id-1].Ex {
			bad("mailbox_rows.table", "table mailbox_message_%d exists but mailbox %d does not", id, id)
		}
	}
	flagTable := func(table string, dst func(b *mBox) *[]string) error {
		return q("SELECT mailbox_id, value FROM "+table, func(r *sql.Rows) error {
			var id int
			var v string
			if err := r.Scan(&id, &v); err != nil {
				return err
			}
			if id < 1 || id > w.maxBox || !got.MB[id-1].Ex {
				bad("mailbox_flags", "%s has a row for mailbox %d which does not exist", table, id)
				return nil
			}
			p := dst(&got.MB[id-1])
			*p = append(*p, absFlagStrings([]string{v})...)
			return nil
		})
	}
	if err := flagTable("mailbox_flags_v2", func(b *mBox) *[]string { return &b.Fl }); err != nil {
		return nil, "", "", err
	}
	if err := flagTable("mailbox_perm_flags_v2", func(b *mBox) *[]string { return &b.Pf }); err != nil {
		return nil, "", "", err
	}
	if err := flagTable("mailbox_attrs_v2", func(b *mBox) *[]string { return &b.At }); err != nil {
		return nil, "", "", err
	}
	// messages
	type macc struct {
		n       int
		key     string
		rid     string
		del     bool
		rids    []string
		flags   map[int][]string
		present []bool
	}
	accs := map[string]*macc{}
	for _, m := range w.order {
		accs[m] = &macc{rids: make([]string, w.g[m]), flags: map[int][]string{}, present: make([]bool, w.g[m])}
	}
	if err := q("SELECT id, remote_id, date, size, body, body_structure, envelope, deleted FROM messages_v2", func(r *sql.Rows) error {
		var id, rid, body, st, env string
		var date time.Time
		var size int
		var del bool
		if err := r.Scan(&id, &rid, &date, &size, &body, &st, &env, &del); err != nil {
			return err
		}
		ref, ok := w.ref[id]
		if !ok {
			bad("messages.existence", "messages_v2 holds an unknown message id %s", id)
			return nil
		}
		a := accs[ref.m]
		if !date.Equal(w.msgDate(ref.m)) || size != msgSize(ref.m, ref.i) || body != msgBody(ref.m, ref.i) || st != msgStruct(ref.m) || env != msgEnv(ref.m) {
			bad("messages.opaque", "message %s clone %d: stored date/size/body/structure/envelope differ from what was created", ref.m, ref.i)
		}
		ar := absMsgRid(rid, ref.i)
		k := fmt.Sprint(ar, del)
		if a.n == 0 {
			a.key, a.rid, a.del = k, ar, del
		} else if k != a.key {
			bad("messages.remote_id", "message %s: clones disagree in messages_v2: clone %d has (remote id %s, deleted %v), another clone (%s, %v)", ref.m, ref.i, ar, del, a.rid, a.del)
		}
		a.n++
		a.present[ref.i] = true
		a.rids[ref.i] = rid
		return nil
	}); err != nil {
		return nil, "", "", err
	}
	if err := q("SELECT message_id, value FROM message_flags_v2", func(r *sql.Rows) error {
		var id, v string
		if err := r.Scan(&id, &v); err != nil {
			return err
		}
		ref, ok := w.ref[id]
		if !ok {
			bad("message_flags", "message_flags_v2 holds an unknown message id %s", id)
			return nil
		}
		accs[ref.m].flags[ref.i] = append(accs[ref.m].flags[ref.i], v)
		return nil
	}); err != nil {
		return nil, "", "", err
	}
	for _, m := range w.order {
		a := accs[m]
		if a.n == 0 {
			if len(a.flags) > 0 {
				bad("message_flags", "message %s: flags stored for a message that does not exist", m)
			}
			continue
		}
		if a.n != w.g[m] {
			bad("messages.existence", "message %s: %d of its %d clones are in messages_v2", m, a.n, w.g[m])
		}
		var fl []string
		for i := 0; i < w.g[m]; i++ {
			if !a.present[i] {
				continue
			}
			f := absFlagStrings(a.flags[i])
			if fl == nil {
				fl = f
			} else if !strsEq(fl, f) {
				bad("message_flags", "message %s: clones disagree in message_flags_v2: clone %d has %v, an earlier clone %v", m, i, f, fl)
				break
			}
		}
		if fl == nil {
			fl = []string{}
		}
		got.Msgs[m] = mMsg{Ex: true, Rid: a.rid, Del: a.del, Fl: fl}
	}
	// message_to_mailbox
	pairN := map[mPair]int{}
	if err := q("SELECT message_id, mailbox_id FROM message_to_mailbox", func(r *sql.Rows) error {
		var id string
		var b int
		if err := r.Scan(&id, &b); err != nil {
			return err
		}
		ref, ok := w.ref[id]
		if !ok {
			bad("message_to_mailbox", "message_to_mailbox holds an unknown message id %s", id)
			return nil
		}
		pairN[mPair{ref.m, b}]++
		return nil
	}); err != nil {
		return nil, "", "", err
	}
	for p, n := range pairN {
		if n != w.g[p.M] {
			bad("message_to_mailbox", "message_to_mailbox: %d of the %d clones of %s are linked to mailbox %d", n, w.g[p.M], p.M, p.B)
		}
		got.M2B = append(got.M2B, p)
	}
	// per-mailbox tables
	for id := 1; id <= w.maxBox; id++ {
		b := &got.MB[id-1]
		if !b.Ex {
			continue
		}
		if !tables[id] {
			bad("mailbox_rows.table", "mailbox %d exists but table mailbox_message_%d does not", id, id)
			continue
		}
		table := "mailbox_message_" + strconv.Itoa(id)
		cnext := seq[table] + 1
		if n, ok := w.absNext(id, cnext); ok {
			b.Next = n
		} else {
			bad("mailbox_rows.autoincrement", "mailbox %d: autoincrement counter %d is not at the boundary of a clone group (groups: %v)", id, cnext-1, w.owner[id])
			b.Next = -cnext
		}
		var cur *mRow
		curN := 0
		flush := func() {
			if cur != nil {
				if curN != w.g[cur.M] {
					bad("mailbox_rows", "mailbox %d: %d of the %d clones of %s are in the mailbox table (uid %d)", id, curN, w.g[cur.M], cur.M, cur.UID)
				}
				b.Rows = append(b.Rows, *cur)
			}
			cur, curN = nil, 0
		}
		if err := q("SELECT uid, deleted, recent, message_id, message_remote_id FROM "+table+" ORDER BY uid", func(r *sql.Rows) error {
			var uid int
			var del, rec bool
			var mid, rid string
			if err := r.Scan(&uid, &del, &rec, &mid, &rid); err != nil {
				return err
			}
			ref, ok := w.ref[mid]
			if !ok {
				bad("mailbox_rows", "%s holds an unknown message id %s", table, mid)
				return nil
			}
			u, i, own, ok := w.absUID(id, uid)
			if !ok || own != ref.m || i != ref.i {
				bad("mailbox_rows.uid", "mailbox %d: uid %d holds clone %d of %s; that uid belongs to clone %d of %q (abstract uid %d)", id, uid, ref.i, ref.m, i, own, u)
				return nil
			}
			if exp != nil {
				if mm, ok := exp.Msgs[ref.m]; ok && mm.Ex {
					want := string(w.curRid(exp, ref.m, ref.i, nil))
					if mm.Rid == "rnd" {
						if a := accs[ref.m]; a.present[ref.i] {
							want = a.rids[ref.i]
						}
					}
					if rid != want {
						bad("mailbox_rows.remote_id_copy", "mailbox %d uid %d: the row shows remote id %q, the message's remote id is %q", id, uid, rid, want)
					}
				}
			}
			if cur != nil && cur.UID == u {
				if cur.Del != del || cur.Rec != rec {
					bad("mailbox_rows.deleted", "mailbox %d: clones of %s disagree (deleted/recent) at uid %d", id, ref.m, uid)
				}
				curN++
				return nil
			}
			flush()
			cur, curN = &mRow{UID: u, M: ref.m, Del: del, Rec: rec}, 1
			return nil
		}); err != nil {
			return nil, "", "", err
		}
		flush()
	}
	if err := q("SELECT name, remote_id FROM deleted_subscriptions", func(r *sql.Rows) error {
		var n, rid string
		if err := r.Scan(&n, &rid); err != nil {
			return err
		}
		got.Dsubs = append(got.Dsubs, mSub{absBoxName(n), absBoxRid(rid)})
		return nil
	}); err != nil {
		return nil, "", "", err
	}
	if err := q("SELECT value FROM connector_settings WHERE id = 0", func(r *sql.Rows) error {
		var v sql.NullString
		if err := r.Scan(&v); err != nil {
			return err
		}
		if v.Valid {
			got.Settings = strings.TrimPrefix(v.String, setPrefix)
		}
		return nil
	}); err != nil {
		return nil, "", "", err
	}
	got.normalize()
	return got, softRel, soft, nil
}

// ---- canonical JSON comparison of replies ----

// canon sorts every array that is not the value of a key named "seq" and turns numbers into float64.
func canon(v any, ordered bool) any {
	switch x := v.(type) {
	case map[string]any:
		out := make(map[string]any, len(x))
		for k, e := range x {
			out[k] = canon(e, k == "seq")
		}
		return out
	case []any:
		out := make([]any, len(x))
		for i, e := range x {
			out[i] = canon(e, false)
		}
		if !ordered {
			sort.Slice(out, func(i, j int) bool { return mustJSON(out[i]) < mustJSON(out[j]) })
		}
		return out
	case []string:
		out := make([]any, len(x))
		for i, e := range x {
			out[i] = e
		}
		return canon(out, ordered)
	case int:
		return float64(x)
	case int64:
		return float64(x)
	default:
		return v
	}
}

func mustJSON(v any) string {
	b, err := json.Marshal(v)
	if err != nil {
		return fmt.Sprintf("%#v", v)
	}
	return string(b)
}

func canonJSON(v any) string { return mustJSON(canon(v, false)) }
