// Package merge binds GluonMerge.tla to internal/response.Merge (C01: "response merging keeps the net effect of the
// stream"): TLC enumerates every well-formed stream of untagged responses of a flush with what the weakest client
// knows after it; the harness builds the stream from real response objects, passes it through the real Merge, renders
// the result to wire text and lets a client of its own read it: both clients must know the same.
package merge

import (
	"encoding/json"
	"fmt"
	"path/filepath"
	"regexp"
	"sort"
	"strconv"
	"strings"
	"time"

	"github.com/ProtonMail/gluon/imap"
	"github.com/ProtonMail/gluon/internal/response"
	"github.com/ProtonMail/gluon/verif/pkg/ev"
	"github.com/ProtonMail/gluon/verif/pkg/tlc"
)

type resp struct {
	T   string   `json:"t"`
	N   int      `json:"n"`
	F   []string `json:"f"`
	UID int      `json:"uid"`
}

type msg struct {
	F   []string `json:"f"`
	UID int      `json:"uid"`
}

type tcase struct {
	Stream []resp `json:"stream"`
	Start  int    `json:"start"`
	Exp    struct {
		Count  int   `json:"count"`
		Recent int   `json:"recent"`
		Msgs   []msg `json:"msgs"`
	} `json:"exp"`
}

func (c *tcase) text() string {
	var out []string
	for _, r := range c.Stream {
		switch r.T {
		case "FETCH":
			s := fmt.Sprintf("* %d FETCH (FLAGS (%s)", r.N, strings.Join(r.F, " "))
			if r.UID != 0 {
				s += fmt.Sprintf(" UID %d", r.UID)
			}
			out = append(out, s+")")
		default:
			out = append(out, fmt.Sprintf("* %d %s", r.N, r.T))
		}
	}
	return strings.Join(out, " | ")
}

var (
	reNum   = regexp.MustCompile(`^\* (\d+) (EXISTS|RECENT|EXPUNGE|FETCH)`)
	reFlags = regexp.MustCompile(`FLAGS \(([^)]*)\)`)
	reUID   = regexp.MustCompile(`UID (\d+)`)
)

// client is the weakest client that follows RFC 3501: what it knows after reading the lines.
type client struct {
	recent int
	msgs   []msg
	err    string
}

func (c *client) read(line string) {
	m := reNum.FindStringSubmatch(line)
	if m == nil {
		c.err = "unreadable line " + strconv.Quote(line)
		return
	}
	n, _ := strconv.Atoi(m[1])
	switch m[2] {
	case "EXISTS":
		if n < len(c.msgs) {
			c.err = fmt.Sprintf("%q while the client counts %d messages", line, len(c.msgs))
			return
		}
		for len(c.msgs) < n {
			c.msgs = append(c.msgs, msg{F: []string{"?"}})
		}
	case "RECENT":
		c.recent = n
	case "EXPUNGE":
		if n < 1 || n > len(c.msgs) {
			c.err = fmt.Sprintf("%q while the client counts %d messages", line, len(c.msgs))
			return
		}
		c.msgs = append(c.msgs[:n-1], c.msgs[n:]...)
	case "FETCH":
		if n < 1 || n > len(c.msgs) {
			c.err = fmt.Sprintf("%q while the client counts %d messages", line, len(c.msgs))
			return
		}
		if f := reFlags.FindStringSubmatch(line); f != nil {
			fl := []string{}
			for _, x := range strings.Fields(f[1]) {
				fl = append(fl, strings.TrimPrefix(x, `\`))
			}
			sort.Strings(fl)
			c.msgs[n-1].F = fl
		}
		if u := reUID.FindStringSubmatch(line); u != nil {
			c.msgs[n-1].UID, _ = strconv.Atoi(u[1])
		}
	}
}

func (c *client) view() string {
	var b strings.Builder
	fmt.Fprintf(&b, "count %d, recent %d:", len(c.msgs), c.recent)
	for i, m := range c.msgs {
		fmt.Fprintf(&b, " %d=(%s uid %d)", i+1, strings.Join(m.F, ","), m.UID)
	}
	return b.String()
}

func build(rs []resp) []response.Response {
	var out []response.Response
	for _, r := range rs {
		switch r.T {
		case "EXISTS":
			out = append(out, response.Exists().WithCount(imap.SeqID(r.N)))
		case "RECENT":
			out = append(out, response.Recent().WithCount(uint32(r.N)))
		case "EXPUNGE":
			out = append(out, response.Expunge(imap.SeqID(r.N)))
		case "FETCH":
			fs := imap.NewFlagSet()
			for _, f := range r.F {
				fs.AddToSelf(`\` + f)
			}
			f := response.Fetch(imap.SeqID(r.N)).WithItems(response.ItemFlags(fs))
			if r.UID != 0 {
				f = f.WithItems(response.ItemUID(imap.UID(r.UID)))
			}
			out = append(out, f)
		}
	}
	return out
}

// judge runs one case; returns "" or the description of the difference.
func judge(c *tcase) (key, detail string) {
	defer func() {
		if p := recover(); p != nil {
			key, detail = "merge/panic", fmt.Sprintf("response.Merge panicked on the stream [%s]: %v", c.text(), p)
		}
	}()
	merged := response.Merge(build(c.Stream))
	cl := &client{recent: -1}
	for i := 0; i < c.Start; i++ {
		cl.msgs = append(cl.msgs, msg{F: []string{"?"}})
	}
	var lines []string
	for _, m := range merged {
		lines = append(lines, m.String())
		cl.read(m.String())
		if cl.err != "" {
			return "merge/ill-formed-stream", fmt.Sprintf("stream [%s]\nmerged to [%s]: %s", c.text(), strings.Join(lines, " | "), cl.err)
		}
	}
	want := &client{recent: c.Exp.Recent, msgs: c.Exp.Msgs}
	for i := range want.msgs {
		sort.Strings(want.msgs[i].F)
	}
	if cl.view() != want.view() {
		kinds := map[string]bool{}
		for _, r := range c.Stream {
			kinds[r.T] = true
		}
		var ks []string
		for k := range kinds {
			ks = append(ks, k)
		}
		sort.Strings(ks)
		return "merge/net-effect/" + strings.Join(ks, "+"), fmt.Sprintf("stream [%s]\nmerged to [%s]\na client that reads the merged stream knows: %s\na client that reads the stream itself knows:  %s", c.text(), strings.Join(lines, " | "), cl.view(), want.view())
	}
	return "", ""
}

// Run is called by the C01 check (one worker).
func Run(r *ev.Run, tier string) {
	specDir := filepath.Join(ev.Root(), "spec")
	n := 0
	res, err := tlc.Run(tlc.Options{SpecDir: specDir, Module: "GluonMerge", Cfg: filepath.Join(specDir, "cfg", "GluonMerge."+tier+".cfg"), Workers: 4, Timeout: 15 * time.Minute, KeepOutput: true,
		OnJSON: func(raw []byte) {
			var c tcase
			if json.Unmarshal(raw, &c) != nil || len(c.Stream) == 0 {
				return
			}
			n++
			if key, detail := judge(&c); key != "" {
				r.Violate(key, detail, map[string]interface{}{"merge": c})
			}
			r.Eval("merge:"+c.text(), len(c.Stream) > 1)
		}})
	if err != nil || res.Violated != "" || res.Error != "" || !res.Finished || n == 0 {
		r.Machinery("TLC on GluonMerge.%s.cfg: err=%v violated=%q error=%q cases=%d", tier, err, res.Violated, res.Error, n)
		return
	}
	r.Add("states", res.Distinct)
	r.Add("transitions", res.Generated)
	r.Add("merge_streams_checked", int64(n))
	r.Add("traces_validated_against_impl", int64(n))
}

// ReplayFile re-executes one stored case.
func ReplayFile(r *ev.Run, raw json.RawMessage) bool {
	var c tcase
	if json.Unmarshal(raw, &c) != nil || len(c.Stream) == 0 {
		return false
	}
	if key, detail := judge(&c); key != "" {
		r.Violate(key, detail, map[string]interface{}{"merge": c})
	}
	r.Eval("merge:"+c.text(), true)
	return true
}
