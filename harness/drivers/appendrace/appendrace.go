// Package appendrace is the concurrent part of C17 (GluonAppendRace.tla): TLC enumerates every interleaving of the
// transaction-level steps of concurrent APPENDs around the message-count limit; each interleaving is forced on the
// real server with the blocking hook "append.checked" (a session is parked between its limit check and its insertion)
// and the tagged results and the final message count are compared with the model.
package appendrace

import (
	"encoding/json"
	"fmt"
	"math/rand"
	"path/filepath"
	"regexp"
	"strconv"
	"strings"
	"sync"
	"time"

	"github.com/ProtonMail/gluon/imap"
	"github.com/ProtonMail/gluon/internal/verifhook"
	"github.com/ProtonMail/gluon/limits"
	"github.com/ProtonMail/gluon/verif/pkg/ev"
	"github.com/ProtonMail/gluon/verif/pkg/fixture"
	"github.com/ProtonMail/gluon/verif/pkg/tlc"
	"github.com/ProtonMail/gluon/verif/pkg/wire"
)

type step struct {
	Act     string `json:"act"`
	S       string `json:"s"`
	Status  string `json:"status"`
	Count   int    `json:"count"`
	UIDNext int    `json:"uidnext"`
}

type trace struct {
	Cfg   string `json:"cfg"`
	Steps []step `json:"trace"`
}

func (t *trace) sig() string {
	var b strings.Builder
	b.WriteString(t.Cfg + ":")
	for _, s := range t.Steps {
		if s.Act != "Begin" {
			b.WriteString(s.Act[:2] + s.S + " ")
		}
	}
	return b.String()
}

// gates: one per session state; the hook parks an armed session until it is released
type gates struct {
	mu     sync.Mutex
	states []int64 // in order of creation (= order of LOGIN)
	armed  map[int64]bool
	parked map[int64]chan struct{} // closed when the session has reached the hook
	free   map[int64]chan struct{} // closed to let it go on
}

func (g *gates) event(kind string, id int64, _ string) {
	if kind != "append.checked" {
		return
	}
	g.mu.Lock()
	if !g.armed[id] {
		g.mu.Unlock()
		return
	}
	g.armed[id] = false
	p, f := g.parked[id], g.free[id]
	g.mu.Unlock()
	close(p)
	select {
	case <-f:
	case <-time.After(60 * time.Second): // never keep a server goroutine for good
	}
}

func (g *gates) arm(id int64) (parked, free chan struct{}) {
	g.mu.Lock()
	defer g.mu.Unlock()
	parked, free = make(chan struct{}), make(chan struct{})
	g.armed[id], g.parked[id], g.free[id] = true, parked, free
	return
}

func (g *gates) disarm(id int64) {
	g.mu.Lock()
	defer g.mu.Unlock()
	g.armed[id] = false
}

type cfgT struct {
	file     string
	sessions []string
	max      int
	start    int
	maxUID   int // 0 = no UID limit
}

var reCount = regexp.MustCompile(`MESSAGES (\d+)`)
var reNext = regexp.MustCompile(`UIDNEXT (\d+)`)

func lit(tag string) []byte {
	return []byte("From: v@verif.test\r\nDate: Mon, 7 Feb 1994 21:52:25 -0800\r\nSubject: " + tag + "\r\n\r\nbody " + tag + "\r\n")
}

// Run is called by the C17 check (one worker).
func Run(r *ev.Run, tier string) {
	specDir := filepath.Join(ev.Root(), "spec")
	// the design: exhaustive, with liveness; the unfixed code: must violate WithinLimit (non-vacuity)
	res, err := tlc.Run(tlc.Options{SpecDir: specDir, Module: "GluonAppendRace", Cfg: filepath.Join(specDir, "cfg", "GluonAppendRace.mc.cfg"), Workers: 2, Timeout: 5 * time.Minute, KeepOutput: true})
	if err != nil || res.Violated != "" || res.Error != "" || !res.Finished {
		r.Machinery("TLC on GluonAppendRace.mc.cfg: err=%v violated=%q error=%q (model-level, not a verdict)", err, res.Violated, res.Error)
		return
	}
	r.Add("states", res.Distinct)
	r.Add("transitions", res.Generated)
	res, err = tlc.Run(tlc.Options{SpecDir: specDir, Module: "GluonAppendRace", Cfg: filepath.Join(specDir, "cfg", "GluonAppendRace.ascode.cfg"), Workers: 1, Timeout: 5 * time.Minute, KeepOutput: true})
	if err != nil || res.Violated != "WithinLimit" {
		r.Machinery("TLC on GluonAppendRace.ascode.cfg was expected to report WithinLimit violated (insertion without a second check): err=%v violated=%q error=%q", err, res.Violated, res.Error)
		return
	}
	cfgs := []cfgT{
		{file: "GluonAppendRace.all2.cfg", sessions: []string{"s1", "s2"}, max: 2, start: 0},
		{file: "GluonAppendRace.all3.cfg", sessions: []string{"s1", "s2", "s3"}, max: 2, start: 1},
		{file: "GluonAppendRace.allx.cfg", sessions: []string{"s1", "s2"}, max: 2, start: 1, maxUID: 3},
	}
	rnd := rand.New(rand.NewSource(ev.Seed()*7919 + 11))
	for _, c := range cfgs {
		var traces []*trace
		res, err := tlc.Run(tlc.Options{SpecDir: specDir, Module: "GluonAppendRace", Cfg: filepath.Join(specDir, "cfg", c.file), Workers: 1, Timeout: 5 * time.Minute, KeepOutput: true,
			OnJSON: func(raw []byte) {
				var t trace
				if json.Unmarshal(raw, &t) == nil && len(t.Steps) > 0 {
					t.Cfg = c.file
					traces = append(traces, &t)
				}
			}})
		if err != nil || res.Violated != "" || res.Error != "" || !res.Finished || len(traces) == 0 {
			r.Machinery("TLC on %s: err=%v violated=%q error=%q behaviours=%d", c.file, err, res.Violated, res.Error, len(traces))
			return
		}
		r.Add("states", res.Distinct)
		r.Add("transitions", res.Generated)
		r.Add("interleavings_enumerated", int64(len(traces)))
		if tier != "thorough" && len(traces) > 450 {
			rnd.Shuffle(len(traces), func(i, j int) { traces[i], traces[j] = traces[j], traces[i] })
			traces = traces[:250]
		}
		if !replayAll(r, c, traces) {
			return
		}
	}
}

// ReplayFile re-executes one recorded interleaving.
func ReplayFile(r *ev.Run, raw json.RawMessage) bool {
	var t trace
	if json.Unmarshal(raw, &t) != nil || len(t.Steps) == 0 {
		return false
	}
	c := cfgT{file: t.Cfg, sessions: []string{"s1", "s2", "s3"}, max: 2, start: 1}
	if strings.Contains(t.Cfg, "allx") {
		c = cfgT{file: t.Cfg, sessions: []string{"s1", "s2"}, max: 2, start: 1, maxUID: 3}
	}
	if strings.Contains(t.Cfg, "all2") {
		c = cfgT{file: t.Cfg, sessions: []string{"s1", "s2"}, max: 2, start: 0}
	}
	replayAll(r, c, []*trace{&t})
	return true
}

func replayAll(r *ev.Run, c cfgT, traces []*trace) bool {
	g := &gates{armed: map[int64]bool{}, parked: map[int64]chan struct{}{}, free: map[int64]chan struct{}{}}
	verifhook.Install(verifhook.Callbacks{
		NewState: func(id int64, _ any) { g.mu.Lock(); g.states = append(g.states, id); g.mu.Unlock() },
		Event:    g.event,
	})
	defer verifhook.Install(verifhook.Callbacks{})
	maxUID := uint32(1 << 30)
	if c.maxUID > 0 {
		maxUID = uint32(c.maxUID)
	}
	l := limits.NewIMAPLimits(1000000, uint32(c.max), imap.UID(maxUID), 1<<30)
	conn := fixture.NewVConn(map[string]string{"user": "pass"})
	srv, err := fixture.StartServer(fixture.Config{Limits: &l, Users: []fixture.User{{Name: "user", Pass: "pass", Conn: conn}}})
	if err != nil {
		r.Machinery("appendrace: cannot start a server: %v", err)
		return false
	}
	defer func() { _ = srv.Close(20 * time.Second); srv.RemoveDir() }()
	cl := map[string]*wire.Client{}
	sid := map[string]int64{}
	for _, s := range append([]string{"aux"}, c.sessions...) {
		w, err := wire.Dial(srv.Addr)
		if err != nil {
			r.Machinery("appendrace: dial: %v", err)
			return false
		}
		defer w.Close()
		g.mu.Lock()
		before := len(g.states)
		g.mu.Unlock()
		if res := w.Login("user", "pass"); res.Status != "OK" {
			r.Machinery("appendrace: login: %s %s", res.Status, res.Text)
			return false
		}
		g.mu.Lock()
		if len(g.states) != before+1 {
			g.mu.Unlock()
			r.Machinery("appendrace: the NewState hook did not fire exactly once for a LOGIN (%d -> %d): hooks missing in /repo?", before, len(g.states))
			return false
		}
		sid[s] = g.states[before]
		g.mu.Unlock()
		cl[s] = w
	}
	for ti, t := range traces {
		box := fmt.Sprintf("race%d", ti)
		var log []string
		logf := func(f string, a ...interface{}) { log = append(log, fmt.Sprintf(f, a...)) }
		fail := func(key, detail string) {
			r.Violate(key, detail+"\ninterleaving ("+c.file+", limit "+strconv.Itoa(c.max)+" messages, "+strconv.Itoa(c.start)+" at the start):\n  "+strings.Join(log, "\n  "),
				map[string]interface{}{"appendrace": t})
		}
		if res := cl["aux"].Cmd("CREATE " + box); res.Status != "OK" {
			r.Machinery("appendrace: CREATE %s: %s %s", box, res.Status, res.Text)
			return false
		}
		for i := 0; i < c.start; i++ {
			if res := cl["aux"].Append(box, "", lit("start")); res.Status != "OK" {
				r.Machinery("appendrace: initial APPEND: %s %s", res.Status, res.Text)
				return false
			}
		}
		type flight struct {
			done   chan wire.Result
			parked chan struct{}
			free   chan struct{}
		}
		fl := map[string]*flight{}
		ok := true
		n := 0
		for i, st := range t.Steps {
			if !ok {
				break
			}
			switch st.Act {
			case "Begin":
				// no shared state is touched before the read transaction: the command is sent at the Check step
			case "Check":
				f := &flight{done: make(chan wire.Result, 1)}
				f.parked, f.free = g.arm(sid[st.S])
				fl[st.S] = f
				n++
				tag := fmt.Sprintf("%s-%d", st.S, n)
				go func(w *wire.Client) { f.done <- w.Append(box, "", lit(tag)) }(cl[st.S])
				select {
				case <-f.parked:
					logf("[%s] APPEND %s: limit check passed, parked before the insertion", st.S, box)
					if st.Status != "pass" {
						close(f.free)
						res := <-f.done
						logf("[%s] released -> %s %s", st.S, res.Status, res.Text)
						fail("race/check-passed-when-full", fmt.Sprintf("step %d: the limit check of %s passed although the mailbox holds %d of %d messages", i+1, st.S, st.Count, c.max))
						ok = false
					}
				case res := <-f.done:
					g.disarm(sid[st.S])
					logf("[%s] APPEND %s -> %s %s (refused by the limit check)", st.S, box, res.Status, res.Text)
					if st.Status == "pass" {
						fail("race/refused-although-fits", fmt.Sprintf("step %d: APPEND of %s answered %s %s although the mailbox holds %d of %d messages", i+1, st.S, res.Status, res.Text, st.Count, c.max))
						ok = false
					} else if res.Status != "NO" {
						fail("race/refusal-status", fmt.Sprintf("step %d: the refused APPEND of %s answered %s %s, expected NO", i+1, st.S, res.Status, res.Text))
						ok = false
					}
				case <-time.After(30 * time.Second):
					r.Machinery("appendrace: APPEND of %s neither reached the hook nor completed within 30 s\n  %s", st.S, strings.Join(log, "\n  "))
					return false
				}
			case "Expunge":
				// the extra party removes the first message: one write transaction
				x := cl["aux"]
				r1 := x.Cmd("SELECT " + box)
				r2 := x.Cmd(`STORE 1 +FLAGS.SILENT (\Deleted)`)
				r3 := x.Cmd("EXPUNGE")
				r4 := x.Cmd("UNSELECT")
				logf("[x] SELECT, STORE 1 +FLAGS.SILENT (\\Deleted), EXPUNGE, UNSELECT -> %s %s %s %s", r1.Status, r2.Status, r3.Status, r4.Status)
				if r1.Status != "OK" || r2.Status != "OK" || r3.Status != "OK" {
					r.Machinery("appendrace: the removal by the extra party failed: %s %s / %s %s / %s %s\n  %s", r1.Status, r1.Text, r2.Status, r2.Text, r3.Status, r3.Text, strings.Join(log, "\n  "))
					return false
				}
			case "Commit":
				f := fl[st.S]
				close(f.free)
				select {
				case res := <-f.done:
					logf("[%s] released: insertion -> %s %s", st.S, res.Status, res.Text)
					if res.Status != st.Status {
						fail("race/commit-status", fmt.Sprintf("step %d: the APPEND of %s (released with %d of %d messages in the mailbox) answered %s %s, the specification expects %s", i+1, st.S, st.Count-b2i(st.Status == "OK"), c.max, res.Status, res.Text, st.Status))
						ok = false
					}
				case <-time.After(30 * time.Second):
					r.Machinery("appendrace: released APPEND of %s did not complete within 30 s\n  %s", st.S, strings.Join(log, "\n  "))
					return false
				}
			}
		}
		// let every parked session go (after a divergence) and read the count
		for s, f := range fl {
			select {
			case <-f.free:
			default:
				select {
				case <-f.parked:
					close(f.free)
					<-f.done
				default:
					g.disarm(sid[s])
				}
			}
		}
		res := cl["aux"].Cmd("STATUS " + box + " (MESSAGES UIDNEXT)")
		cnt, next := -1, -1
		for _, l := range res.Untagged {
			if m := reCount.FindStringSubmatch(l.Text); m != nil {
				cnt, _ = strconv.Atoi(m[1])
			}
			if m := reNext.FindStringSubmatch(l.Text); m != nil {
				next, _ = strconv.Atoi(m[1])
			}
		}
		logf("STATUS %s -> %d messages, UIDNEXT %d", box, cnt, next)
		want := t.Steps[len(t.Steps)-1].Count
		if wantNext := t.Steps[len(t.Steps)-1].UIDNext; c.maxUID > 0 && next > c.maxUID {
			fail("race/uid-exceeds-limit", fmt.Sprintf("the mailbox announces UIDNEXT %d: a UID of %d or more was handed out, the configured limit allows UIDs below %d", next, c.maxUID, c.maxUID))
		} else if ok && wantNext > 0 && next != wantNext {
			fail("race/uidnext-differs", fmt.Sprintf("the mailbox announces UIDNEXT %d, the specification says %d", next, wantNext))
		}
		if cnt > c.max {
			fail("race/count-exceeds-limit", fmt.Sprintf("the mailbox holds %d messages, the configured maximum is %d", cnt, c.max))
		} else if ok && cnt != want {
			fail("race/count-differs", fmt.Sprintf("the mailbox holds %d messages, the specification says %d", cnt, want))
		}
		if res := cl["aux"].Cmd("DELETE " + box); res.Status != "OK" {
			r.Machinery("appendrace: DELETE %s: %s %s", box, res.Status, res.Text)
			return false
		}
		r.Eval("race:"+t.sig(), true)
		r.Add("traces_validated_against_impl", 1)
		r.Add("race_interleavings_replayed", 1)
		if ti == 0 {
			r.Sample(map[string]interface{}{"source": c.file, "concrete": log})
		}
	}
	return true
}

func b2i(b bool) int {
	if b {
		return 1
	}
	return 0
}
