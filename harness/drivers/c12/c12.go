// Package c12: any message bytes yield well-formed ENVELOPE / BODY / BODYSTRUCTURE without
// crashing. TLC enumerates (tree, shape) classes from GluonMime.tla (Family = "structure") with
// the expected structure over the layout; pkg/mimegen renders every class to bytes; the parsing
// code (imap.NewParsedMessage, rfc822.Parse/Children/Walk/Part, rfc5322.ParseAddressList) runs in
// a child process. Weak expectation (every input): no panic, no fatal error, an answer before the
// watchdog, texts that a strict parenthesised-list reader accepts, every reported range inside its
// parent and the message. Strong expectation (undamaged classes): the structure equals the tree.
// Besides the classes, seeded instances (garbage, mutations, deep nesting, huge lines) are tried.
package c12

import (
	"encoding/json"
	"fmt"
	"math/rand"
	"os"
	"path/filepath"
	"sort"
	"strings"
	"time"

	"github.com/ProtonMail/gluon/verif/drivers"
	"github.com/ProtonMail/gluon/verif/pkg/ev"
	"github.com/ProtonMail/gluon/verif/pkg/mimegen"
	"github.com/ProtonMail/gluon/verif/pkg/tlc"
)

func init() { drivers.Register("C12", "exploration", run) }

type structNode struct {
	K      string        `json:"k"`
	A      []int         `json:"a"`
	Type   string        `json:"type"`
	Sub    string        `json:"sub"`
	Params []string      `json:"params"`
	Cte    string        `json:"cte"`
	Hdr    [2]int        `json:"hdr"`
	Body   [2]int        `json:"body"`
	Lines  bool          `json:"lines"`
	Ext    bool          `json:"ext"`
	Kids   []*structNode `json:"kids"`
	Env    []string      `json:"env"`
}

type expPart struct {
	Path []int  `json:"path"`
	Body [2]int `json:"body"`
}

type tcase struct {
	Tree   *mimegen.Tree   `json:"tree"`
	Shape  mimegen.Shape   `json:"shape"`
	Layout []mimegen.Chunk `json:"layout"`
	Exp    struct {
		Strong bool        `json:"strong"`
		Struct *structNode `json:"struct"`
		Parts  []expPart   `json:"parts"`
	} `json:"exp"`
}

func (c *tcase) sig() string { return mimegen.Key(c.Tree, c.Shape) }

// input is one message handed to the worker, with what is needed to report and replay it.
type input struct {
	Class string // class label for evidence and keys: "case" classes or instance classes
	Desc  string
	Msg   []byte
	Paths [][]int
	Case  *tcase    // for TLC classes
	Inst  *instSpec // for instances
	built *mimegen.Built
}

type drv struct {
	r       *ev.Run
	w       *worker
	crashes int
	hangs   int
	maxUs   int64
	dd      *mimegen.Dedup
	slowest string
}

func quoteTrim(b []byte, n int) string {
	if len(b) > n {
		return fmt.Sprintf("%q... (%d octets in all)", b[:n], len(b))
	}
	return fmt.Sprintf("%q", b)
}

func (d *drv) replayObj(in *input) interface{} {
	if in.Case != nil {
		return map[string]interface{}{"kind": "case", "case": in.Case}
	}
	o := map[string]interface{}{"kind": "instance", "inst": in.Inst}
	if len(in.Msg) <= 1<<16 {
		o["msg"] = in.Msg
	}
	return o
}

func nonDefault(s mimegen.Shape) string { return strings.Join(s.Dims(), ",") }

// violate reports a failure. Classes with the default shape run first; a failure signature seen there is
// not reported again for the other shapes of the same tree context (same cause); a signature that only
// appears under a non-default shape carries the shape in its key.
func (d *drv) violate(in *input, key, detail string) {
	if in.Case != nil {
		k, report := d.dd.Key(in.Case.Shape.Dims(), key)
		if !report {
			return
		}
		key = k
	}
	d.r.Violate(key, fmt.Sprintf("%s [%s]\n%s\nmessage: %s", in.Class, in.Desc, detail, quoteTrim(in.Msg, 1500)), d.replayObj(in))
}

// watchdog time for an input: generous and growing with the size; slowness is not a hang.
func watchdog(n int) time.Duration {
	return 180*time.Second + time.Duration(n/2048)*time.Second
}

func topFrame(stderr string) string {
	for _, l := range strings.Split(stderr, "\n") {
		l = strings.TrimSpace(l)
		if strings.HasPrefix(l, "fatal error:") || strings.HasPrefix(l, "panic:") {
			l = strings.TrimPrefix(strings.TrimPrefix(l, "fatal error:"), "panic:")
			l = strings.TrimSpace(l)
			if i := strings.IndexAny(l, "[0123456789"); i > 8 {
				l = strings.TrimSpace(l[:i])
			}
			return strings.ReplaceAll(l, " ", "-")
		}
	}
	return "unknown"
}

func panicSig(p string) string {
	first := strings.SplitN(p, "\n", 2)[0]
	// "step: message": keep the step and the message without numbers
	out := make([]rune, 0, len(first))
	for _, r := range first {
		if r >= '0' && r <= '9' {
			continue
		}
		out = append(out, r)
	}
	s := strings.ReplaceAll(string(out), " ", "-")
	if len(s) > 100 {
		s = s[:100]
	}
	return s
}

// exec runs one input through the worker and applies the weak expectation. It returns the
// worker's result (nil after a crash or hang).
func (d *drv) exec(in *input) *wRes {
	if d.w == nil {
		w, err := startWorker()
		if err != nil {
			d.r.Machinery("cannot start the worker process: %v", err)
			return nil
		}
		d.w = w
	}
	out, err := d.w.call(&wReq{Msg: in.Msg, Paths: in.Paths}, watchdog(len(in.Msg)))
	if err != nil {
		d.r.Machinery("worker protocol: %v", err)
		d.w.kill()
		d.w = nil
		return nil
	}
	if out.Crashed {
		d.w = nil
		d.crashes++
		d.violate(in, "crash/"+topFrame(out.Stderr), "the process died while parsing the message:\n"+out.Stderr)
		return nil
	}
	if out.Hung {
		d.w = nil
		d.hangs++
		d.violate(in, "hang/"+in.Class, fmt.Sprintf("no result after %v (watchdog) for a message of %d octets", out.Waited.Round(time.Second), len(in.Msg)))
		return nil
	}
	res := out.Res
	if res.Micros > d.maxUs {
		d.maxUs, d.slowest = res.Micros, in.Class+" "+in.Desc
	}
	if res.Panic != "" {
		d.violate(in, "panic/"+panicSig(res.Panic), "panic (recovered in the worker): "+res.Panic)
	}
	// well-formed texts
	if res.Err == "" && res.Panic == "" {
		for _, t := range [][2]string{{"ENVELOPE", string(res.Envelope)}, {"BODY", string(res.Body)}, {"BODYSTRUCTURE", string(res.Structure)}} {
			if _, err := mimegen.ParseList(t[1]); err != nil {
				le, _ := err.(*mimegen.ListError)
				kind := "error"
				if le != nil {
					kind = le.Kind
				}
				d.violate(in, "malformed/"+t[0]+"/"+kind, fmt.Sprintf("%s is not a well-formed parenthesised list: %v\n%s = %s", t[0], err, t[0], quoteTrim([]byte(t[1]), 1200)))
			}
		}
	}
	// ranges
	n := len(in.Msg)
	for i, s := range res.Sections {
		if s.Hdr < 0 || s.Body < 0 || s.End < 0 || s.Hdr > s.Body || s.Body > s.End || s.End > n {
			d.violate(in, "range/section-outside-message", fmt.Sprintf("section %v reports header at %d, body at %d, end %d in a message of %d octets", s.ID, s.Hdr, s.Body, s.End, n))
			continue
		}
		if s.Parent >= 0 && s.Parent < i {
			p := res.Sections[s.Parent]
			if s.Hdr < p.Body || s.End > p.End {
				d.violate(in, "range/section-outside-parent", fmt.Sprintf("section %v [%d,%d) is not inside the body [%d,%d) of its parent %v", s.ID, s.Hdr, s.End, p.Body, p.End, p.ID))
			}
		}
	}
	if res.Walked != len(res.Sections) && res.WalkErr == "" {
		d.violate(in, "walk/count", fmt.Sprintf("Walk visited %d sections, Children() recursion %d", res.Walked, len(res.Sections)))
	}
	for _, p := range res.Parts {
		if p.Err != "" {
			continue
		}
		if p.Hdr < 0 || p.Body < 0 || p.Hdr > p.Body || p.Body > p.End || p.End > n {
			d.violate(in, "range/part-outside-message", fmt.Sprintf("Part(%v) reports header at %d, body at %d, end %d in a message of %d octets", p.Path, p.Hdr, p.Body, p.End, n))
		}
	}
	return res
}

// ---- strong expectation ------------------------------------------------------------

type cmp struct {
	d    *drv
	in   *input
	b    *mimegen.Built
	what string // BODY | BODYSTRUCTURE
	ext  bool
}

func kindCtx(n *structNode) string {
	if n.K == "emb" && len(n.Kids) == 1 {
		return "emb(" + n.Kids[0].K + ")"
	}
	return n.K
}

func (c *cmp) fail(n *structNode, field, detail string, it *mimegen.Item) {
	txt := ""
	if it != nil {
		txt = "\nreported: " + quoteTrim([]byte(it.String()), 700)
	}
	c.d.violate(c.in, "struct/"+kindCtx(n)+"/"+field,
		fmt.Sprintf("%s of the part at tree address [%s] (%s/%s): %s%s", c.what, mimegen.AddrKey(n.A), n.Type, n.Sub, detail, txt))
}

func (c *cmp) params(n *structNode, it *mimegen.Item) {
	info := c.b.Nodes[mimegen.AddrKey(n.A)]
	if len(n.Params) == 0 {
		if !it.IsNil() {
			if it.IsList() && len(it.Kids) == 0 {
				c.fail(n, "params-empty-list", "no parameters: RFC 3501 body-fld-param is NIL or a non-empty list, reported ()", nil)
			} else {
				c.fail(n, "params", "no parameters expected", it)
			}
		}
		return
	}
	if !it.IsList() || len(it.Kids) != 2*len(n.Params) {
		c.fail(n, "params", fmt.Sprintf("expected the parameters %v", n.Params), it)
		return
	}
	got := map[string]string{}
	for i := 0; i+1 < len(it.Kids); i += 2 {
		k, _ := it.Kids[i].NString()
		v, _ := it.Kids[i+1].NString()
		got[strings.ToLower(k)] = v
	}
	for _, name := range n.Params {
		want := ""
		if info != nil {
			want = info.Params[name]
		}
		if got[name] != want {
			c.fail(n, "param-"+name, fmt.Sprintf("parameter %s: expected %q, reported %q", name, want, got[name]), it)
		}
	}
}

func (c *cmp) node(n *structNode, it *mimegen.Item) {
	if !it.IsList() || len(it.Kids) == 0 {
		c.fail(n, "not-a-list", "body is not a non-empty list", it)
		return
	}
	body, bodyOff := c.b.RangeBytes(n.Body)
	_ = bodyOff
	switch n.K {
	case "multi":
		i := 0
		for i < len(it.Kids) && it.Kids[i].IsList() {
			i++
		}
		if i == 0 {
			c.fail(n, "rendered-as-single-part", "a multipart is a list of bodies followed by the subtype", it)
			return
		}
		if i != len(n.Kids) {
			c.fail(n, "child-count", fmt.Sprintf("expected %d children, reported %d", len(n.Kids), i), it)
			return
		}
		if i >= len(it.Kids) || !it.Kids[i].IsString() || !strings.EqualFold(it.Kids[i].Str, n.Sub) {
			c.fail(n, "subtype", fmt.Sprintf("expected subtype %q", n.Sub), it)
		}
		for j, k := range n.Kids {
			c.node(k, it.Kids[j])
		}
		if c.ext {
			if len(it.Kids) < i+2 {
				c.fail(n, "ext-missing", "BODYSTRUCTURE of a multipart without the parameter list", it)
			} else {
				c.params(n, it.Kids[i+1])
			}
			if len(it.Kids) > i+5 {
				c.fail(n, "ext-count", "more than 4 extension fields", it)
			}
			if n.Ext {
				c.extData(n, it, i+2, false)
			}
		} else if len(it.Kids) != i+1 {
			c.fail(n, "body-has-ext", "BODY must not carry extension data", it)
		}
	default:
		if it.Kids[0].IsList() {
			c.fail(n, "rendered-as-multipart", "a single part starts with the type string; reported a list of bodies", it)
			return
		}
		want := 7
		if n.Lines {
			want = 8
		}
		if n.K == "emb" {
			want = 10
		}
		if len(it.Kids) < want {
			c.fail(n, "field-count", fmt.Sprintf("expected at least %d fields", want), it)
			return
		}
		if !c.ext && len(it.Kids) != want {
			c.fail(n, "field-count", fmt.Sprintf("BODY: expected exactly %d fields, reported %d", want, len(it.Kids)), it)
			return
		}
		if c.ext && len(it.Kids) > want+4 {
			c.fail(n, "ext-count", "more than 4 extension fields", it)
		}
		if c.ext && n.Ext {
			c.extData(n, it, want, true)
		}
		if !it.Kids[0].IsString() || !strings.EqualFold(it.Kids[0].Str, n.Type) || !it.Kids[1].IsString() || !strings.EqualFold(it.Kids[1].Str, n.Sub) {
			c.fail(n, "type", fmt.Sprintf("expected %s/%s", n.Type, n.Sub), it)
			return
		}
		c.params(n, it.Kids[2])
		if !it.Kids[3].IsNil() || !it.Kids[4].IsNil() {
			c.fail(n, "id-description", "no Content-Id / Content-Description was written", it)
		}
		enc, ok := it.Kids[5].NString()
		switch {
		case !ok:
			c.fail(n, "encoding", "encoding is not a string", it)
		case n.Cte == "" && enc != "" && !strings.EqualFold(enc, "7bit"):
			c.fail(n, "encoding", "no Content-Transfer-Encoding was written: expected NIL or 7BIT", it)
		case n.Cte != "" && !strings.EqualFold(enc, n.Cte):
			c.fail(n, "encoding", fmt.Sprintf("expected %q", n.Cte), it)
		}
		if !it.Kids[6].IsNum() || int(it.Kids[6].Num) != len(body) {
			c.fail(n, "size", fmt.Sprintf("the body has %d octets, reported %s", len(body), it.Kids[6].String()), it)
		}
		li := 7
		if n.K == "emb" {
			inner := n.Kids[0]
			c.envelope(inner, it.Kids[7], "embedded")
			c.node(inner, it.Kids[8])
			li = 9
		}
		if n.Lines {
			if !it.Kids[li].IsNum() || int(it.Kids[li].Num) != mimegen.TextLines(body) {
				c.fail(n, "lines", fmt.Sprintf("the body has %d text lines, reported %s", mimegen.TextLines(body), it.Kids[li].String()), it)
			}
		}
	}
}

// extData: the extension data of BODYSTRUCTURE (RFC 3501 body-ext-1part: md5 dsp lang loc; body-ext-mpart after the
// parameter list: dsp lang loc) must be that of THIS part's own header fields.
func (c *cmp) extData(n *structNode, it *mimegen.Item, at int, withMD5 bool) {
	info := c.b.Nodes[mimegen.AddrKey(n.A)]
	if info == nil {
		return
	}
	need := 3
	if withMD5 {
		need = 4
	}
	if len(it.Kids) < at+need {
		c.fail(n, "ext-missing", fmt.Sprintf("the part carries Content-Disposition / -Language / -Location%s: expected %d extension fields, reported %d",
			map[bool]string{true: " / -MD5", false: ""}[withMD5], need, len(it.Kids)-at), it)
		return
	}
	if withMD5 {
		if v, ok := it.Kids[at].NString(); !ok || v != info.Ext["md5"] {
			c.fail(n, "ext-md5", fmt.Sprintf("expected the part's own Content-MD5 %q", info.Ext["md5"]), it.Kids[at])
		}
		at++
	}
	// body-fld-dsp = "(" string SP body-fld-param ")"
	d := it.Kids[at]
	okD := d.IsList() && len(d.Kids) == 2 && d.Kids[0].IsString() && strings.EqualFold(d.Kids[0].Str, "attachment") && d.Kids[1].IsList() && len(d.Kids[1].Kids) == 2
	if okD {
		k, _ := d.Kids[1].Kids[0].NString()
		v, _ := d.Kids[1].Kids[1].NString()
		okD = strings.EqualFold(k, "filename") && v == info.Ext["filename"]
	}
	if !okD {
		c.fail(n, "ext-disposition", fmt.Sprintf("expected the part's own disposition (\"attachment\" (\"filename\" %q))", info.Ext["filename"]), d)
	}
	// body-fld-lang = nstring / "(" string *(SP string) ")"
	l := it.Kids[at+1]
	lang, okL := l.NString()
	if l.IsList() {
		okL = len(l.Kids) == 1
		if okL {
			lang, okL = l.Kids[0].NString()
		}
	}
	if !okL || !strings.EqualFold(lang, info.Ext["language"]) {
		c.fail(n, "ext-language", fmt.Sprintf("expected the part's own language %q", info.Ext["language"]), l)
	}
	if v, ok := it.Kids[at+2].NString(); !ok || v != info.Ext["location"] {
		c.fail(n, "ext-location", fmt.Sprintf("expected the part's own location %q", info.Ext["location"]), it.Kids[at+2])
	}
}

func addrItemOK(it *mimegen.Item, addr string) bool {
	if !it.IsList() || len(it.Kids) != 1 {
		return false
	}
	a := it.Kids[0]
	if !a.IsList() || len(a.Kids) != 4 {
		return false
	}
	sp := strings.SplitN(addr, "@", 2)
	mb, _ := a.Kids[2].NString()
	host, _ := a.Kids[3].NString()
	return a.Kids[0].IsNil() && a.Kids[1].IsNil() && mb == sp[0] && host == sp[1] && a.Kids[2].IsString() && a.Kids[3].IsString()
}

// envelope compares an envelope list with what was written for the message rooted at node n.
func (c *cmp) envelope(n *structNode, it *mimegen.Item, where string) {
	info := c.b.Nodes[mimegen.AddrKey(n.A)]
	have := map[string]bool{}
	for _, f := range n.Env {
		have[f] = true
	}
	bad := func(field, detail string) {
		c.d.violate(c.in, "envelope/"+where+"/"+field, fmt.Sprintf("ENVELOPE (%s message at tree address [%s]) %s: %s\nreported: %s", where, mimegen.AddrKey(n.A), field, detail, quoteTrim([]byte(it.String()), 900)))
	}
	if !it.IsList() || len(it.Kids) != 10 {
		bad("shape", "an envelope has 10 fields")
		return
	}
	str := func(i int, field string) {
		want := ""
		if have[field] && info != nil {
			want = info.Env[field]
		}
		got, ok := it.Kids[i].NString()
		if !ok || got != want || (want == "" && !it.Kids[i].IsNil()) {
			bad(strings.ToLower(field), fmt.Sprintf("expected %q", want))
		}
	}
	str(0, "Date")
	str(1, "Subject")
	from := ""
	if have["From"] && info != nil {
		from = info.Env["From"]
	}
	for i, f := range []string{"from", "sender", "reply-to"} {
		if from == "" {
			if !it.Kids[2+i].IsNil() {
				bad(f, "no From was written")
			}
		} else if !addrItemOK(it.Kids[2+i], from) {
			bad(f, fmt.Sprintf("expected the single address %s (sender and reply-to default to from)", from))
		}
	}
	if have["To"] && info != nil {
		if !addrItemOK(it.Kids[5], info.Env["To"]) {
			bad("to", fmt.Sprintf("expected the single address %s without a personal name", info.Env["To"]))
		}
	} else if !it.Kids[5].IsNil() {
		bad("to", "no To was written")
	}
	for i, f := range []string{"cc", "bcc", "in-reply-to"} {
		if !it.Kids[6+i].IsNil() {
			bad(f, "field was not written")
		}
	}
	str(9, "Message-Id")
}

func (d *drv) strong(in *input, res *wRes) {
	c := in.Case
	b := in.built
	if res.Err != "" {
		d.violate(in, "error/undamaged", "imap.NewParsedMessage refused a well-formed message: "+res.Err)
		return
	}
	if res.Panic != "" {
		return
	}
	for _, t := range []struct {
		what, txt string
		ext       bool
	}{{"BODY", string(res.Body), false}, {"BODYSTRUCTURE", string(res.Structure), true}} {
		it, err := mimegen.ParseList(t.txt)
		if err != nil {
			continue // reported by the weak expectation
		}
		cm := &cmp{d: d, in: in, b: b, what: t.what, ext: t.ext}
		cm.node(c.Exp.Struct, it)
	}
	if it, err := mimegen.ParseList(string(res.Envelope)); err == nil {
		cm := &cmp{d: d, in: in, b: b, what: "ENVELOPE"}
		cm.envelope(c.Exp.Struct, it, "top")
	}
	// Part(path): the body of every numbered part
	got := map[string]wPart{}
	for _, p := range res.Parts {
		got[mimegen.AddrKey(p.Path)] = p
	}
	kindOf := func(path []int) string {
		// context for the key: kinds along the way are not needed; depth and the leaf kind suffice
		return fmt.Sprintf("depth%d", len(path))
	}
	for _, ep := range c.Exp.Parts {
		p, ok := got[mimegen.AddrKey(ep.Path)]
		want, off := b.RangeBytes(ep.Body)
		ctx := d.partCtx(c, ep.Path)
		if !ok {
			continue
		}
		if p.Err != "" {
			d.violate(in, "part/"+ctx+"/error", fmt.Sprintf("Part(%v) of a well-formed message failed: %s", ep.Path, p.Err))
			continue
		}
		if p.End-p.Body != len(want) || (off >= 0 && len(want) > 0 && p.Body != off) {
			gotB := []byte{}
			if p.Body >= 0 && p.End <= len(in.Msg) && p.Body <= p.End {
				gotB = in.Msg[p.Body:p.End]
			}
			d.violate(in, "part/"+ctx+"/wrong-range", fmt.Sprintf("Part(%v).Body() is [%d,%d) = %s\nthe body of part %v is [%d,%d) = %s", ep.Path, p.Body, p.End, quoteTrim(gotB, 300), ep.Path, off, off+len(want), quoteTrim(want, 300)))
		}
		_ = kindOf
	}
	// address headers
	for _, a := range res.Addrs {
		info := b.Nodes[""]
		want := ""
		switch a.Header {
		case "From":
			want = info.Env["From"]
		case "To":
			want = info.Env["To"]
		}
		if want == "" {
			continue
		}
		if a.Err != "" {
			d.violate(in, "address/"+c.Shape.Hdr+"/error", fmt.Sprintf("rfc5322.ParseAddressList(%q) failed on a well-formed %s header: %s", a.Value, a.Header, a.Err))
		} else if len(a.List) != 1 || a.List[0][1] != want || a.List[0][0] != "" {
			d.violate(in, "address/"+c.Shape.Hdr+"/wrong", fmt.Sprintf("rfc5322.ParseAddressList(%q) = %v, expected the single address %s without a name", a.Value, a.List, want))
		}
	}
}

// partCtx describes a section path by the kinds of nodes it goes through, e.g. "multi.emb(leaf).1".
func (d *drv) partCtx(c *tcase, path []int) string {
	var walk func(n *structNode, path []int, msgRoot bool) string
	walk = func(n *structNode, path []int, msgRoot bool) string {
		if len(path) == 0 {
			return kindCtx(n)
		}
		switch n.K {
		case "multi":
			if path[0] <= len(n.Kids) {
				return "multi." + walk(n.Kids[path[0]-1], path[1:], false)
			}
		case "emb":
			inner := n.Kids[0]
			if inner.K == "multi" {
				return "emb." + walk(inner, path, true)
			}
			return "emb(" + inner.K + ").1" + func() string {
				if len(path) > 1 {
					return "." + walk(inner, path[1:], true)
				}
				return ""
			}()
		case "leaf":
			return "leaf.1"
		}
		return "?"
	}
	root := c.Exp.Struct
	if root.K != "multi" {
		// the message's own body is part 1
		if len(path) == 1 {
			return "own(" + kindCtx(root) + ").1"
		}
		return "own(" + root.K + ")." + walk(root, path[1:], true)
	}
	return walk(root, path, true)
}

// ---- run ---------------------------------------------------------------------------

func cfgsOf(tier string) []string {
	if tier == "thorough" {
		return []string{"GluonMime.structure.thorough.cfg", "GluonMime.structure.thorough2.cfg"}
	}
	return []string{"GluonMime.structure.quick.cfg"}
}

func loadCases(r *ev.Run, tier string) ([]*tcase, bool) {
	var cases []*tcase
	seen := map[string]bool{}
	var states, gen int64
	var wall float64
	perCfg := map[string]int64{}
	for _, name := range cfgsOf(tier) {
		cfg := filepath.Join(ev.Root(), "spec", "cfg", name)
		bad, n := 0, 0
		res, err := tlc.Run(tlc.Options{
			SpecDir: filepath.Join(ev.Root(), "spec"), Module: "GluonMime", Cfg: cfg,
			Workers: 8, Timeout: 25 * time.Minute, KeepOutput: true,
			OnJSON: func(raw []byte) {
				var c tcase
				if err := json.Unmarshal(raw, &c); err == nil && c.Tree != nil && c.Exp.Struct != nil {
					n++
					if k := c.sig(); !seen[k] {
						seen[k] = true
						cases = append(cases, &c)
					}
				} else {
					bad++
				}
			},
		})
		if err != nil {
			r.Machinery("tlc: %v", err)
			return nil, false
		}
		if res.Violated != "" || res.Error != "" || !res.Finished || res.TimedOut {
			r.Machinery("TLC on GluonMime (%s) did not finish cleanly: violated=%q error=%q timeout=%v\n%s", name, res.Violated, res.Error, res.TimedOut, tail(res.Output))
			return nil, false
		}
		if int64(n) != res.Distinct || bad > 0 {
			r.Machinery("TLC (%s) printed %d usable cases (%d unusable) but found %d states", name, n, bad, res.Distinct)
			return nil, false
		}
		states += res.Distinct
		gen += res.Generated
		wall += res.Wall.Seconds()
		perCfg[name] = res.Distinct
	}
	r.Set("states", states)
	r.Set("transitions", gen)
	r.Set("tlc_wall_s", wall)
	r.Set("states_per_cfg", perCfg)
	sort.SliceStable(cases, func(i, j int) bool {
		di, dj := len(cases[i].Shape.Dims()), len(cases[j].Shape.Dims())
		if di != dj {
			return di < dj
		}
		return cases[i].sig() < cases[j].sig()
	})
	return cases, true
}

func (d *drv) runCase(c *tcase, tag string) {
	b := mimegen.Build(c.Tree, c.Shape, c.Layout, tag)
	in := &input{Class: "class", Desc: c.sig(), Msg: b.Bytes, Case: c, built: b}
	for _, p := range c.Exp.Parts {
		in.Paths = append(in.Paths, p.Path)
	}
	in.Paths = append(in.Paths, []int{7}, []int{1, 7, 1})
	d.r.Eval(mimegen.Hash("class "+c.sig()), true)
	res := d.exec(in)
	if res != nil && c.Exp.Strong {
		d.strong(in, res)
	}
}

func run(r *ev.Run, tier, replay string) {
	seed := ev.Seed()
	d := &drv{r: r, dd: mimegen.NewDedup()}
	defer func() {
		if d.w != nil {
			d.w.kill()
		}
	}()
	if replay != "" {
		d.replay(replay)
		return
	}
	cases, ok := loadCases(r, tier)
	if !ok {
		return
	}
	strongN, weakN := 0, 0
	dims := map[string]map[string]int{"hdr": {}, "le": {}, "bnd": {}, "dmg": {}}
	trees := map[string]bool{}
	for i, c := range cases {
		d.runCase(c, fmt.Sprintf("c%d", i))
		if c.Exp.Strong {
			strongN++
		} else {
			weakN++
		}
		dims["hdr"][c.Shape.Hdr]++
		dims["le"][c.Shape.Le]++
		dims["bnd"][c.Shape.Bnd]++
		dims["dmg"][c.Shape.Dmg]++
		trees[c.Tree.String()] = true
		if i%(len(cases)/6+1) == 0 {
			b := mimegen.Build(c.Tree, c.Shape, c.Layout, "s")
			r.Sample(map[string]interface{}{"class": c.sig(), "strong": c.Exp.Strong, "message": quoteTrim(b.Bytes, 400)})
		}
		if d.crashes+d.hangs > 40 {
			r.Machinery("more than 40 crashes/hangs of the worker, giving up the rest of the run")
			return
		}
	}
	// seeded instances inside and beyond the classes
	rnd := rand.New(rand.NewSource(seed))
	insts := instances(tier, rnd, cases)
	instClasses := map[string]int{}
	for _, in := range insts {
		instClasses[in.Class]++
		d.r.Eval(mimegen.Hash(fmt.Sprintf("instance %s %s", in.Class, in.Desc)), true)
		d.exec(in)
		if d.crashes+d.hangs > 40 {
			r.Machinery("more than 40 crashes/hangs of the worker, giving up the rest of the run")
			return
		}
	}
	r.Set("classes_covered", len(cases))
	r.Set("classes_strong_expectation", strongN)
	r.Set("classes_weak_expectation_only", weakN)
	r.Set("distinct_trees", len(trees))
	r.Set("class_dimensions", dims)
	r.Set("instances_tried", len(insts))
	r.Set("instance_classes", instClasses)
	r.Set("failure_signatures_repeated_under_other_shapes", d.dd.Also)
	r.Set("worker_crashes", d.crashes)
	r.Set("worker_hangs", d.hangs)
	r.Set("slowest_parse_ms", float64(d.maxUs)/1000)
	r.Set("slowest_input", d.slowest)
	r.Set("traces_validated_against_impl", int64(len(cases)))
	r.Set("exhaustive", false)
	r.Set("rule", "class = (tree, shape) enumerated exhaustively by TLC from GluonMime (Family structure) within the cfg bounds, with layout and expected structure; every class is rendered once by pkg/mimegen and parsed in a child process; instance = seeded concrete byte string of an instance class (garbage, mutation of a rendered class, deep nesting, huge lines), weak expectation only; non-trivial = every executed input; distinct = distinct class or (instance class, parameters)")
	r.Assumptions = []string{
		"sampled: 'for any message bytes' is covered by bounded abstract classes (trees of depth <= 3 and the cfg's node budget) plus seeded instances; inside a class one rendering is tried",
		"size and line count of a part are computed by the harness from the bytes of the chunk range that the specification names as the part's body; text lines = line terminators plus one for a last unterminated line (RFC 3501 does not say how an unterminated last line counts)",
		"octets above 127 inside quoted strings of ENVELOPE/BODYSTRUCTURE are tolerated by the list reader; backslash escapes other than \\\" and \\\\ are not",
		"a body-fld-enc of NIL is accepted where no Content-Transfer-Encoding header exists",
		"the watchdog (180 s + 1 s per 2 KiB) decides 'hang'; nesting depth of instances is kept <= 200 for message/rfc822 because parsing is quadratic in it",
		"bare-LF and mixed line endings count as well formed for the strong expectation (the property's quantifier names them)",
	}
}

func tail(s string) string {
	if len(s) > 3000 {
		return s[len(s)-3000:]
	}
	return s
}

func (d *drv) replay(path string) {
	b, err := os.ReadFile(path)
	if err != nil {
		d.r.Machinery("replay: %v", err)
		return
	}
	var rp struct {
		Replay struct {
			Kind string    `json:"kind"`
			Case *tcase    `json:"case"`
			Inst *instSpec `json:"inst"`
			Msg  []byte    `json:"msg"`
		} `json:"replay"`
	}
	if err := json.Unmarshal(b, &rp); err != nil {
		d.r.Machinery("replay file: %v", err)
		return
	}
	d.r.Set("states", 1)
	d.r.Set("transitions", 1)
	switch {
	case rp.Replay.Case != nil:
		d.runCase(rp.Replay.Case, "c0")
	case rp.Replay.Msg != nil:
		in := &input{Class: rp.Replay.Inst.Class, Desc: rp.Replay.Inst.desc(), Msg: rp.Replay.Msg, Inst: rp.Replay.Inst, Paths: instPaths(rp.Replay.Inst)}
		d.r.Eval("instance "+in.Class+" "+in.Desc, true)
		d.exec(in)
	case rp.Replay.Inst != nil:
		in := rp.Replay.Inst.build(nil)
		if in == nil {
			d.r.Machinery("replay: instance %+v needs the class it mutates; replay files of mutations carry the bytes", rp.Replay.Inst)
			return
		}
		d.r.Eval("instance "+in.Class+" "+in.Desc, true)
		d.exec(in)
	default:
		d.r.Machinery("replay file has neither a case nor an instance")
	}
}
