package c12

import (
	"bytes"
	"fmt"
	"math/rand"
	"strings"

	"github.com/ProtonMail/gluon/verif/pkg/mimegen"
)

// instSpec identifies a concrete byte string of an instance class (weak expectation only).
type instSpec struct {
	Class string `json:"class"`
	N     int    `json:"n"`
	Seed  int64  `json:"seed"`
	Of    string `json:"of,omitempty"` // mutate: the class that was mutated
}

func (s *instSpec) desc() string {
	d := fmt.Sprintf("n=%d seed=%d", s.N, s.Seed)
	if s.Of != "" {
		d += " of " + s.Of
	}
	return d
}

const hdr0 = "From: a@b.c\r\nDate: Mon, 7 Feb 1994 21:52:25 -0800\r\n"

var corners = []string{
	"", "\n", "\r\n", "\r", ":", "a", "a:", ":a", "--", "\n\n", "\r\n\r\n", " \r\n", "\t:\r\n",
	"a:\r", "a:\r\r", "a: b\r", "a: b\rc", "a:\rb", "a::\r\n", "a: b\n c", "a: b\n c\n\n", "a\n: b\n\n",
	"Content-Type: multipart/mixed; boundary=\r\n\r\n--\r\n--\r\n----\r\n",
	"Content-Type: multipart/mixed; boundary=\"\"\r\n\r\n--\r\n\r\n----",
	"Content-Type: multipart/mixed\r\n\r\n--\r\nx\r\n----\r\n",
	"Content-Type: multipart/mixed; boundary=b\r\n\r\n--b",
	"Content-Type: multipart/mixed; boundary=b\r\n\r\n--b--",
	"Content-Type: multipart/mixed; boundary=b\r\n\r\n--b\r\n--b\r\n--b--",
	"Content-Type: multipart/mixed; boundary=b\r\n\r\n--b\r\r\r\n\r\n--b--\r\r\n",
	"Content-Type: multipart/mixed; boundary=b\r\n\r\n--b-",
	"Content-Type: multipart/mixed; boundary=b\r\n\r\n\n--b\n\n--b--",
	"Content-Type: multipart/mixed; boundary=b\r\n\r\n--b\n--b--\n--b\n--b--\n",
	"Content-Type: multipart/mixed; boundary=b\r\n\r\n--b--\r\n--b\r\nA: b\r\n\r\nlate part\r\n--b--\r\n",
	"Content-Type: multipart/; boundary=b\r\n\r\n--b\r\n\r\n--b--",
	"Content-Type: /\r\n\r\nx", "Content-Type: multipart\r\n\r\nx", "Content-Type: message/rfc822\r\n\r\n",
	"Content-Type: message/rfc822\r\n\r\nContent-Type: message/rfc822\r\n\r\nContent-Type: message/rfc822\r\n\r\n",
	"Content-Type: message/rfc822\r\n\r\n\r\n", "Content-Type: message/rfc822\r\n\r\n:",
	"Content-Type: message/rfc822\r\n\r\n\xff: x\r\n\r\n",
	"Content-Type: MESSAGE/RFC822\r\n\r\nSubject: x\r\n\r\ny",
	"Content-Type: message/rfc822; x=y\r\n\r\nContent-Type: multipart/mixed; boundary=q\r\n\r\n--q\r\n\r\n1\r\n--q--",
	"Content-Disposition: attachment; filename=\"a\\\"b\"\r\n\r\nx",
	"Content-Disposition: ;;;\r\nContent-Language: \"\r\nContent-Location: \\\r\nContent-MD5: \x00\r\nContent-Id: (\r\nContent-Description: )\r\n\r\nx",
	"Subject: \"\r\n\r\n", "Subject: \\\r\n\r\n", "Subject: a\\\r\n\r\n", "Subject: \x7f\x01\x1b\r\n\r\n", "Subject: {3}\r\n\r\n",
	"Subject: =?utf-8?q?=C3=A9?=\r\n\r\n", "Subject: \xc3\r\n\r\n", "Subject: \xe2\x80\xa8\r\n\r\n",
	"Date: \"\r\nMessage-Id: \\\r\nIn-Reply-To: \t\x01\r\n\r\n",
	"From: \r\nTo: ,\r\nCc: ;\r\nBcc: <>\r\nSender: @\r\nReply-To: a@\r\n\r\n",
	"From: a@b@c\r\nTo: \"\\\"@x\r\nCc: a@[\r\nBcc: a@[1.2.3.4]\r\n\r\n",
	"From: g:;\r\nTo: g:a@b,c@d;,e@f\r\nCc: g:g:;;\r\nBcc: :;\r\n\r\n",
	"To: \"a\\\r\n b\" <a@b>\r\n\r\n", "To: =?x?q?=?= <a@b>\r\n\r\n", "To: <a@b> (\r\n\r\n", "To: a@b (\\\r\n\r\n",
	"To: <@r1,@r2:a@b>\r\nCc: a.\"b\".c@d\r\nBcc: a . b @ c . d\r\n\r\n",
	"From: \"\xff\" <a@b>\r\nTo: \xe9 <a@b>\r\nCc: a@\xe9\r\n\r\n",
	hdr0 + "Content-Type: text/plain; charset=\"\\\"\"\r\n\r\nx",
	hdr0 + "Content-Type: text/plain; a=1; a=2\r\n\r\nx",
	hdr0 + "Content-Type: text/plain; a*0=x; a*1=y; b*=utf-8''%C3%A9\r\n\r\nx",
	hdr0 + "Content-Type: text/plain; name=\"a\tb\"\r\n\r\nx",
	hdr0 + "Content-Type: text/plain; name=\"caf\xe9\"\r\n\r\nx",
	hdr0 + "Content-Type: text/pl\xe9ain\r\n\r\nx",
	hdr0 + "Content-Type: text/plain\r\nContent-Transfer-Encoding: \"\r\n\r\nx",
	hdr0 + "Content-Type: text/plain\r\nContent-Transfer-Encoding: base64\t\x01\r\n\r\nx",
	hdr0 + "Content-Type: multipart/mixed; boundary=\"a\\\"b\"\r\n\r\n--a\"b\r\n\r\nx\r\n--a\"b--\r\n",
	hdr0 + "Content-Type: multipart/mixed; boundary=\"\t\"\r\n\r\n--\t\r\n\r\nx\r\n--\t--\r\n",
	hdr0 + "Content-Type: multipart/mixed; boundary=\"caf\xc3\xa9\"\r\n\r\n--caf\xc3\xa9\r\n\r\nx\r\n--caf\xc3\xa9--\r\n",
}

func garbage(rnd *rand.Rand, n int) []byte {
	alpha := []string{":", "\r\n", "\n", "\r", " ", "\t", "(", ")", "\"", "\\", ";", "=", "--", "-", "<", ">", "@", ",", "/", "*", "%", "'", "{", "}", "[", "]", "\x00", "\xff", "\xc3", "\xa9",
		"Content-Type", "multipart/mixed", "message/rfc822", "boundary", "text/plain", "From", "To", "Subject", "Date", "Content-Disposition", "charset", "b", "x", "1"}
	var buf bytes.Buffer
	mode := rnd.Intn(3)
	for buf.Len() < n {
		switch {
		case mode == 0 || rnd.Intn(4) == 0:
			buf.WriteByte(byte(rnd.Intn(256)))
		default:
			buf.WriteString(alpha[rnd.Intn(len(alpha))])
		}
	}
	b := buf.Bytes()
	if len(b) > n {
		b = b[:n]
	}
	return b
}

func mutate(rnd *rand.Rand, src []byte) []byte {
	b := append([]byte{}, src...)
	tokens := []string{"\r\n", "\n", "\r", "--", ":", "\"", "(", ")", "\\", ";", "\x00", "\xff", "=", " ", "\t", "--BnDr", "--BnDr--", "\r\n\r\n"}
	for k := 1 + rnd.Intn(4); k > 0; k-- {
		if len(b) == 0 {
			b = []byte(tokens[rnd.Intn(len(tokens))])
			continue
		}
		i := rnd.Intn(len(b))
		switch rnd.Intn(6) {
		case 0: // delete a range
			j := i + rnd.Intn(len(b)-i+1)
			if j-i > 40 {
				j = i + 40
			}
			b = append(b[:i:i], b[j:]...)
		case 1: // duplicate a range
			j := i + rnd.Intn(len(b)-i+1)
			if j-i > 60 {
				j = i + 60
			}
			dup := append([]byte{}, b[i:j]...)
			b = append(b[:j:j], append(dup, b[j:]...)...)
		case 2: // flip
			b[i] ^= byte(1 << uint(rnd.Intn(8)))
		case 3: // insert a token
			t := tokens[rnd.Intn(len(tokens))]
			b = append(b[:i:i], append([]byte(t), b[i:]...)...)
		case 4: // truncate
			b = b[:i]
		case 5: // overwrite with a random byte
			b[i] = byte(rnd.Intn(256))
		}
	}
	return b
}

func deepMultipart(n int) []byte {
	var buf bytes.Buffer
	buf.WriteString(hdr0)
	for i := 0; i < n; i++ {
		fmt.Fprintf(&buf, "Content-Type: multipart/mixed; boundary=b%d\r\n\r\n--b%d\r\n", i, i)
	}
	buf.WriteString("Content-Type: text/plain\r\n\r\ninnermost\r\n")
	for i := n - 1; i >= 0; i-- {
		fmt.Fprintf(&buf, "--b%d--\r\n", i)
	}
	return buf.Bytes()
}

func deepRFC822(n int) []byte {
	var buf bytes.Buffer
	buf.WriteString(hdr0)
	for i := 0; i < n; i++ {
		fmt.Fprintf(&buf, "Content-Type: message/rfc822\r\n\r\nSubject: level %d\r\nFrom: l%d@example.org\r\n", i, i)
	}
	buf.WriteString("Content-Type: text/plain\r\n\r\ninnermost\r\n")
	return buf.Bytes()
}

func deepMixed(n int) []byte {
	var buf bytes.Buffer
	buf.WriteString(hdr0)
	depth := 0
	var closers []string
	for i := 0; i < n; i++ {
		if i%2 == 0 {
			fmt.Fprintf(&buf, "Content-Type: multipart/mixed; boundary=m%d\r\n\r\npreamble\r\n--m%d\r\n", i, i)
			closers = append(closers, fmt.Sprintf("\r\n--m%d--\r\n", i))
		} else {
			fmt.Fprintf(&buf, "Content-Type: message/rfc822\r\n\r\nSubject: level %d\r\n", i)
		}
		depth++
	}
	buf.WriteString("Content-Type: text/plain\r\n\r\ninnermost")
	for i := len(closers) - 1; i >= 0; i-- {
		buf.WriteString(closers[i])
	}
	return buf.Bytes()
}

func commentNest(field string, n int) []byte {
	return []byte(hdr0 + field + ": " + strings.Repeat("(c", n) + strings.Repeat(")", n) + " bob@example.com\r\n\r\nbody\r\n")
}

func instPaths(s *instSpec) [][]int {
	paths := [][]int{{1}, {2}, {1, 1}, {1, 2}, {2, 1}, {1, 1, 1}, {3, 1}}
	if strings.HasPrefix(s.Class, "deep-") || s.Class == "many-parts" {
		var deep []int
		for i := 0; i < s.N+2; i++ {
			deep = append(deep, 1)
			if i == s.N/2 || i == s.N-1 || i == s.N+1 {
				paths = append(paths, append([]int{}, deep...))
			}
		}
		paths = append(paths, []int{s.N}, []int{s.N + 1})
	}
	return paths
}

// build renders an instance. src is needed by "mutate" only.
func (s *instSpec) build(src []byte) *input {
	rnd := rand.New(rand.NewSource(s.Seed))
	var msg []byte
	switch s.Class {
	case "corner":
		if s.N < 0 || s.N >= len(corners) {
			return nil
		}
		msg = []byte(corners[s.N])
	case "garbage":
		msg = garbage(rnd, s.N)
	case "garbage-after-header":
		msg = append([]byte(hdr0+"Content-Type: multipart/mixed; boundary=x\r\n\r\n--x\r\n"), garbage(rnd, s.N)...)
	case "mutate":
		if src == nil {
			return nil
		}
		msg = mutate(rnd, src)
	case "deep-multipart":
		msg = deepMultipart(s.N)
	case "deep-rfc822":
		msg = deepRFC822(s.N)
	case "deep-mixed":
		msg = deepMixed(s.N)
	case "comment-nesting-to":
		msg = commentNest("To", s.N)
	case "comment-nesting-from":
		msg = commentNest("From", s.N)
	case "comment-unclosed":
		msg = []byte(hdr0 + "To: " + strings.Repeat("(", s.N) + " bob@example.com\r\n\r\nbody\r\n")
	case "content-type-comment-nesting":
		msg = []byte(hdr0 + "Content-Type: text/plain " + strings.Repeat("(", s.N) + strings.Repeat(")", s.N) + "; charset=utf-8\r\n\r\nbody\r\n")
	case "huge-header-line":
		msg = []byte(hdr0 + "Subject: " + strings.Repeat("x", s.N) + "\r\n\r\nbody\r\n")
	case "huge-header-no-colon":
		msg = []byte(strings.Repeat("x", s.N) + "\r\n\r\nbody\r\n")
	case "huge-folded-header":
		msg = []byte(hdr0 + "Subject: start" + strings.Repeat("\r\n more", s.N) + "\r\n\r\nbody\r\n")
	case "many-fields":
		var buf bytes.Buffer
		buf.WriteString(hdr0)
		for i := 0; i < s.N; i++ {
			fmt.Fprintf(&buf, "X-F%d: v%d\r\n", i%50, i)
		}
		buf.WriteString("\r\nbody\r\n")
		msg = buf.Bytes()
	case "huge-body-line":
		msg = []byte(hdr0 + "Content-Type: text/plain\r\n\r\n" + strings.Repeat("y", s.N))
	case "many-body-lines":
		msg = []byte(hdr0 + "Content-Type: text/plain\r\n\r\n" + strings.Repeat("\n", s.N))
	case "many-parts":
		var buf bytes.Buffer
		buf.WriteString(hdr0 + "Content-Type: multipart/mixed; boundary=p\r\n\r\n")
		for i := 0; i < s.N; i++ {
			fmt.Fprintf(&buf, "--p\r\nContent-Type: text/plain\r\n\r\n%d\r\n", i)
		}
		buf.WriteString("--p--\r\n")
		msg = buf.Bytes()
	case "many-false-boundaries":
		msg = []byte(hdr0 + "Content-Type: multipart/mixed; boundary=p\r\n\r\n--p\r\n\r\n" + strings.Repeat("--px\r\n x--p\r\n", s.N) + "--p--\r\n")
	case "many-addresses":
		var as []string
		for i := 0; i < s.N; i++ {
			as = append(as, fmt.Sprintf("N%d <u%d@example.org>", i, i))
		}
		msg = []byte(hdr0 + "To: " + strings.Join(as, ",\r\n ") + "\r\n\r\nbody\r\n")
	case "nested-groups":
		msg = []byte(hdr0 + "To: " + strings.Repeat("g:", s.N) + "a@b" + strings.Repeat(";", s.N) + "\r\n\r\nbody\r\n")
	case "long-boundary":
		bd := strings.Repeat("B", s.N)
		msg = []byte(hdr0 + "Content-Type: multipart/mixed; boundary=" + bd + "\r\n\r\n--" + bd + "\r\n\r\nx\r\n--" + bd + "--\r\n")
	case "many-params":
		var ps []string
		for i := 0; i < s.N; i++ {
			ps = append(ps, fmt.Sprintf("p%d=v%d", i, i))
		}
		msg = []byte(hdr0 + "Content-Type: text/plain; " + strings.Join(ps, "; ") + "\r\n\r\nx")
	case "quoted-pairs":
		msg = []byte(hdr0 + "To: \"" + strings.Repeat("\\\"", s.N) + "\" <a@b>\r\nSubject: " + strings.Repeat("\\", s.N) + "\r\n\r\nx")
	default:
		return nil
	}
	return &input{Class: s.Class, Desc: s.desc(), Msg: msg, Inst: s, Paths: instPaths(s)}
}

// instances returns the seeded instances of a tier.
func instances(tier string, rnd *rand.Rand, cases []*tcase) []*input {
	var out []*input
	add := func(s *instSpec, src []byte) {
		if in := s.build(src); in != nil {
			out = append(out, in)
		}
	}
	thorough := tier == "thorough"
	for i := range corners {
		add(&instSpec{Class: "corner", N: i}, nil)
	}
	nGarbage, nMut := 1500, 3000
	if thorough {
		nGarbage, nMut = 12000, 40000
	}
	for i := 0; i < nGarbage; i++ {
		n := []int{1, 2, 3, 5, 8, 16, 40, 100, 300, 1000, 4000}[rnd.Intn(11)]
		cl := "garbage"
		if i%3 == 0 {
			cl = "garbage-after-header"
		}
		add(&instSpec{Class: cl, N: n, Seed: rnd.Int63()}, nil)
	}
	if len(cases) > 0 {
		for i := 0; i < nMut; i++ {
			c := cases[rnd.Intn(len(cases))]
			b := mimegen.Build(c.Tree, c.Shape, c.Layout, "m")
			add(&instSpec{Class: "mutate", Seed: rnd.Int63(), Of: c.sig()}, b.Bytes)
		}
	}
	for _, n := range []int{10, 100, 200} {
		add(&instSpec{Class: "deep-multipart", N: n}, nil)
		add(&instSpec{Class: "deep-rfc822", N: n}, nil)
		add(&instSpec{Class: "deep-mixed", N: n}, nil)
	}
	comment := []int{10, 1000, 100000}
	huge := []int{1 << 16, 1 << 20}
	many := []int{1000, 20000}
	if thorough {
		comment = append(comment, 1000000, 4000000, 6000000)
		huge = append(huge, 8<<20)
		many = append(many, 200000)
	}
	for _, n := range comment {
		add(&instSpec{Class: "comment-nesting-to", N: n}, nil)
		add(&instSpec{Class: "comment-nesting-from", N: n}, nil)
		add(&instSpec{Class: "comment-unclosed", N: n}, nil)
		add(&instSpec{Class: "content-type-comment-nesting", N: n}, nil)
		add(&instSpec{Class: "nested-groups", N: n}, nil)
		add(&instSpec{Class: "quoted-pairs", N: n}, nil)
	}
	for _, n := range huge {
		add(&instSpec{Class: "huge-header-line", N: n}, nil)
		add(&instSpec{Class: "huge-header-no-colon", N: n}, nil)
		add(&instSpec{Class: "huge-body-line", N: n}, nil)
		add(&instSpec{Class: "many-body-lines", N: n}, nil)
		add(&instSpec{Class: "long-boundary", N: n}, nil)
	}
	for _, n := range many {
		add(&instSpec{Class: "huge-folded-header", N: n}, nil)
		add(&instSpec{Class: "many-fields", N: n}, nil)
		add(&instSpec{Class: "many-parts", N: n}, nil)
		add(&instSpec{Class: "many-false-boundaries", N: n}, nil)
		add(&instSpec{Class: "many-addresses", N: n}, nil)
		add(&instSpec{Class: "many-params", N: n}, nil)
	}
	return out
}
