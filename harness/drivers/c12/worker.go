package c12

import (
	"bufio"
	"encoding/binary"
	"encoding/json"
	"fmt"
	"io"
	"os"
	"os/exec"
	"runtime/debug"
	"strings"
	"sync"
	"syscall"
	"time"

	"github.com/ProtonMail/gluon/imap"
	"github.com/ProtonMail/gluon/rfc5322"
	"github.com/ProtonMail/gluon/rfc822"
	"github.com/sirupsen/logrus"
)

// The parsing code under test runs in a child process of the same binary (env C12_WORKER=1):
// a fatal error (stack overflow, out of memory) or an endless loop there is an observation of the
// parent, which kills and restarts the worker. Frames on the pipes: 4 byte big endian length + JSON.

type wReq struct {
	Msg   []byte  `json:"msg"`
	Paths [][]int `json:"paths"`
}

type wSection struct {
	ID     []int `json:"id"`
	Parent int   `json:"parent"` // index into Sections, -1 for the root
	Hdr    int   `json:"hdr"`    // offsets in the message; -1: the slice is not inside the message
	Body   int   `json:"body"`
	End    int   `json:"end"`
}

type wPart struct {
	Path []int  `json:"path"`
	Err  string `json:"err,omitempty"`
	Hdr  int    `json:"hdr"`
	Body int    `json:"body"`
	End  int    `json:"end"`
}

type wAddr struct {
	Header string      `json:"header"`
	Value  []byte      `json:"value"`
	Err    string      `json:"err,omitempty"`
	List   [][2]string `json:"list"` // name, address
}

type wRes struct {
	Err       string     `json:"err,omitempty"` // NewParsedMessage returned an error
	Body      []byte     `json:"body"`          // []byte: JSON would replace octets that are not UTF-8
	Structure []byte     `json:"structure"`
	Envelope  []byte     `json:"envelope"`
	Sections  []wSection `json:"sections"`
	WalkErr   string     `json:"walk_err,omitempty"`
	Walked    int        `json:"walked"`
	Parts     []wPart    `json:"parts"`
	Addrs     []wAddr    `json:"addrs"`
	Panic     string     `json:"panic,omitempty"` // a recovered panic (with stack) and the step it happened in
	Micros    int64      `json:"micros"`
}

func init() {
	if os.Getenv("C12_WORKER") != "" {
		runWorker()
		os.Exit(0)
	}
}

func offsetIn(root, s []byte) int {
	off := cap(root) - cap(s)
	if off < 0 || off > len(root) || off+len(s) > len(root) {
		return -1
	}
	if len(s) > 0 && &root[off] != &s[0] {
		return -1
	}
	return off
}

func step(res *wRes, name string, f func()) {
	defer func() {
		if p := recover(); p != nil {
			if res.Panic == "" {
				res.Panic = fmt.Sprintf("%s: %v\n%s", name, p, debug.Stack())
			}
		}
	}()
	f()
}

func analyse(req *wReq) *wRes {
	res := &wRes{}
	msg := req.Msg
	start := time.Now()
	step(res, "imap.NewParsedMessage", func() {
		pm, err := imap.NewParsedMessage(msg)
		if err != nil {
			res.Err = err.Error()
			return
		}
		res.Body, res.Structure, res.Envelope = []byte(pm.Body), []byte(pm.Structure), []byte(pm.Envelope)
	})
	var root *rfc822.Section
	step(res, "rfc822.Parse", func() { root = rfc822.Parse(msg) })
	if root != nil {
		step(res, "rfc822.Section.Children (recursive)", func() {
			var walk func(s *rfc822.Section, parent int)
			walk = func(s *rfc822.Section, parent int) {
				idx := len(res.Sections)
				h, b := s.Header(), s.Body()
				ws := wSection{ID: append([]int{}, s.Identifier()...), Parent: parent, Hdr: offsetIn(msg, h), Body: offsetIn(msg, b)}
				if ws.Body >= 0 {
					ws.End = ws.Body + len(b)
				} else {
					ws.End = -1
				}
				res.Sections = append(res.Sections, ws)
				kids, err := s.Children()
				if err != nil {
					if res.WalkErr == "" {
						res.WalkErr = err.Error()
					}
					return
				}
				for _, k := range kids {
					walk(k, idx)
				}
			}
			walk(root, -1)
		})
		step(res, "rfc822.Section.Walk", func() {
			err := root.Walk(func(s *rfc822.Section) error {
				res.Walked++
				_ = s.Literal()
				return nil
			})
			if err != nil && res.WalkErr == "" {
				res.WalkErr = err.Error()
			}
		})
		for _, p := range req.Paths {
			p := p
			step(res, "rfc822.Section.Part", func() {
				wp := wPart{Path: p, Hdr: -1, Body: -1, End: -1}
				s, err := root.Part(p...)
				if err != nil {
					wp.Err = err.Error()
				} else if s == nil {
					wp.Err = "nil section without error"
				} else {
					h, b := s.Header(), s.Body()
					wp.Hdr, wp.Body = offsetIn(msg, h), offsetIn(msg, b)
					if wp.Body >= 0 {
						wp.End = wp.Body + len(b)
					}
				}
				res.Parts = append(res.Parts, wp)
			})
		}
		step(res, "rfc5322.ParseAddressList", func() {
			h, err := root.ParseHeader()
			if err != nil || h == nil {
				return
			}
			for _, name := range []string{"From", "Sender", "Reply-To", "To", "Cc", "Bcc"} {
				v, ok := h.GetChecked(name)
				if !ok {
					continue
				}
				wa := wAddr{Header: name, Value: []byte(v)}
				if len(wa.Value) > 200 {
					wa.Value = wa.Value[:200]
				}
				l, err := rfc5322.ParseAddressList(v)
				if err != nil {
					wa.Err = err.Error()
				}
				for i, a := range l {
					if i >= 4 {
						break
					}
					wa.List = append(wa.List, [2]string{a.Name, a.Address})
				}
				res.Addrs = append(res.Addrs, wa)
			}
		})
	}
	res.Micros = time.Since(start).Microseconds()
	return res
}

func readFrame(r io.Reader) ([]byte, error) {
	var n [4]byte
	if _, err := io.ReadFull(r, n[:]); err != nil {
		return nil, err
	}
	b := make([]byte, binary.BigEndian.Uint32(n[:]))
	if _, err := io.ReadFull(r, b); err != nil {
		return nil, err
	}
	return b, nil
}

func writeFrame(w io.Writer, b []byte) error {
	var n [4]byte
	binary.BigEndian.PutUint32(n[:], uint32(len(b)))
	if _, err := w.Write(n[:]); err != nil {
		return err
	}
	_, err := w.Write(b)
	return err
}

func runWorker() {
	logrus.SetOutput(io.Discard)
	logrus.SetLevel(logrus.PanicLevel)
	in := bufio.NewReaderSize(os.Stdin, 1<<20)
	out := bufio.NewWriterSize(os.Stdout, 1<<20)
	for {
		b, err := readFrame(in)
		if err != nil {
			return
		}
		var req wReq
		if err := json.Unmarshal(b, &req); err != nil {
			fmt.Fprintln(os.Stderr, "worker: bad request:", err)
			os.Exit(3)
		}
		res := analyse(&req)
		rb, _ := json.Marshal(res)
		if err := writeFrame(out, rb); err != nil {
			return
		}
		_ = out.Flush()
	}
}

// ---- parent side ---------------------------------------------------------------

type worker struct {
	cmd     *exec.Cmd
	in      io.WriteCloser
	out     *bufio.Reader
	mu      sync.Mutex
	errTail []string
	done    chan struct{}
}

func startWorker() (*worker, error) {
	exe, err := os.Executable()
	if err != nil {
		return nil, err
	}
	cmd := exec.Command(exe, "__c12worker")
	cmd.Env = append(os.Environ(), "C12_WORKER=1", "GOTRACEBACK=single")
	cmd.SysProcAttr = &syscall.SysProcAttr{Pdeathsig: syscall.SIGKILL}
	in, err := cmd.StdinPipe()
	if err != nil {
		return nil, err
	}
	op, err := cmd.StdoutPipe()
	if err != nil {
		return nil, err
	}
	ep, err := cmd.StderrPipe()
	if err != nil {
		return nil, err
	}
	if err := cmd.Start(); err != nil {
		return nil, err
	}
	w := &worker{cmd: cmd, in: in, out: bufio.NewReaderSize(op, 1<<20), done: make(chan struct{})}
	go func() {
		sc := bufio.NewScanner(ep)
		sc.Buffer(make([]byte, 1<<20), 1<<20)
		for sc.Scan() {
			w.mu.Lock()
			if len(w.errTail) < 40 {
				l := sc.Text()
				if len(l) > 300 {
					l = l[:300]
				}
				w.errTail = append(w.errTail, l)
			}
			w.mu.Unlock()
		}
		close(w.done)
	}()
	return w, nil
}

func (w *worker) stderr() string {
	<-w.done
	w.mu.Lock()
	defer w.mu.Unlock()
	return strings.Join(w.errTail, "\n")
}

func (w *worker) kill() {
	_ = w.cmd.Process.Kill()
	_ = w.in.Close()
	_, _ = w.cmd.Process.Wait()
}

// outcome of one request
type outcome struct {
	Res     *wRes
	Crashed bool   // the worker process died
	Hung    bool   // no answer within the watchdog time
	Stderr  string // head of the worker's stderr after a crash
	Waited  time.Duration
}

// call sends one request; on crash or hang the worker is dead afterwards (the caller restarts it).
func (w *worker) call(req *wReq, watchdog time.Duration) (*outcome, error) {
	b, err := json.Marshal(req)
	if err != nil {
		return nil, err
	}
	type rd struct {
		b   []byte
		err error
	}
	ch := make(chan rd, 1)
	start := time.Now()
	go func() {
		// a write can block when the worker hangs before draining the pipe: keep it inside the goroutine
		if err := writeFrame(w.in, b); err != nil {
			ch <- rd{nil, err}
			return
		}
		rb, err := readFrame(w.out)
		ch <- rd{rb, err}
	}()
	select {
	case r := <-ch:
		if r.err != nil {
			w.kill()
			return &outcome{Crashed: true, Stderr: w.stderr(), Waited: time.Since(start)}, nil
		}
		var res wRes
		if err := json.Unmarshal(r.b, &res); err != nil {
			return nil, fmt.Errorf("worker answer: %v", err)
		}
		return &outcome{Res: &res, Waited: time.Since(start)}, nil
	case <-time.After(watchdog):
		w.kill()
		return &outcome{Hung: true, Waited: time.Since(start)}, nil
	}
}
