// Package idle binds GluonIdle.tla to the end of IDLE in the real server (C01): updates pushed to an idling session
// are applied to its snapshot at once while their untagged responses wait in the buffer of a second goroutine (the
// sender); TLC enumerates every order of pushes, ticker flushes, DONE, the sender's final flush, the completion, a probe
// (FETCH 1:* (UID FLAGS)) and a further change announced by NOOP. Each behaviour is forced on a real server: the
// idling session is gated (updates reach it one at a time), the sender is parked before its final flush with the hook
// "idle.flush", and the hook "idle.wait" tells when the session goroutine waits for the sender (then the final flush
// necessarily comes first and is let through). The verdict is the property's own predicate on what the real server
// sent: a client that reconstructs the mailbox only from the untagged responses, in the order in which they arrive,
// never disagrees with what the server reports.
package idle

import (
	"encoding/json"
	"fmt"
	"path/filepath"
	"sort"
	"strings"
	"sync"
	"time"

	"github.com/ProtonMail/gluon/verif/pkg/core"
	"github.com/ProtonMail/gluon/verif/pkg/ev"
	"github.com/ProtonMail/gluon/verif/pkg/fixture"
	"github.com/ProtonMail/gluon/verif/pkg/tlc"
	"github.com/ProtonMail/gluon/verif/pkg/wire"
)

type step struct {
	Act string `json:"act"`
	K   string `json:"k"`
	N   int    `json:"n"`
}

type trace struct {
	Cfg   string `json:"cfg"`
	Steps []step `json:"trace"`
	Bad   string `json:"bad"`
	Count int    `json:"count"`
}

func (t *trace) sig() string {
	var b strings.Builder
	for _, s := range t.Steps {
		fmt.Fprintf(&b, "%s%s%d ", s.Act[:2], s.K, s.N)
	}
	return b.String()
}

const start = 2 // Start of the configurations

// hooks: the sender goroutine is parked at "idle.flush" while armed; "idle.wait" and the end of the sender are signalled
type hooks struct {
	mu      sync.Mutex
	armed   bool
	parked  chan struct{}
	free    chan struct{}
	waiting chan struct{}
	ended   chan struct{}
}

func (h *hooks) arm() {
	h.mu.Lock()
	defer h.mu.Unlock()
	h.armed = true
	h.parked, h.free, h.waiting, h.ended = make(chan struct{}), make(chan struct{}), make(chan struct{}, 1), make(chan struct{}, 1)
}

func (h *hooks) event(kind string, _ int64, detail string) {
	switch {
	case kind == "idle.flush":
		h.mu.Lock()
		if !h.armed {
			h.mu.Unlock()
			return
		}
		h.armed = false
		pk, fr := h.parked, h.free
		h.mu.Unlock()
		close(pk)
		select {
		case <-fr:
		case <-time.After(60 * time.Second): // never keep a server goroutine for good
		}
	case kind == "idle.wait":
		h.mu.Lock()
		w := h.waiting
		h.mu.Unlock()
		if w != nil {
			select {
			case w <- struct{}{}:
			default:
			}
		}
	case kind == "go.end" && detail == "idle":
		h.mu.Lock()
		e := h.ended
		h.mu.Unlock()
		if e != nil {
			select {
			case e <- struct{}{}:
			default:
			}
		}
	}
}

// mirror is what a client knows from the untagged responses alone: per sequence number "?" (flags unknown), "T"/"F" (\Seen).
type mirror struct {
	m   []string
	bad string
}

func (m *mirror) line(l wire.Line, logf func(string, ...interface{})) {
	for _, e := range wire.Events([]wire.Line{l}) {
		if m.bad != "" {
			return
		}
		switch e.Kind {
		case "EXISTS":
			if e.N < len(m.m) {
				m.bad = fmt.Sprintf("count-shrinks-without-expunge: %q while the client counts %d messages", l.Text, len(m.m))
				return
			}
			for len(m.m) < e.N {
				m.m = append(m.m, "?")
			}
		case "EXPUNGE":
			if e.N < 1 || e.N > len(m.m) {
				m.bad = fmt.Sprintf("expunge-beyond-count: %q while the client counts %d messages", l.Text, len(m.m))
				return
			}
			m.m = append(m.m[:e.N-1], m.m[e.N:]...)
		case "FETCH":
			if e.N < 1 || e.N > len(m.m) {
				m.bad = fmt.Sprintf("fetch-beyond-count: %q while the client counts %d messages", l.Text, len(m.m))
				return
			}
			if e.HasFlags {
				m.m[e.N-1] = "F"
				for _, f := range e.Flags {
					if strings.EqualFold(f, `\Seen`) {
						m.m[e.N-1] = "T"
					}
				}
			}
		}
	}
}

// conn is the idling client: one reader goroutine, lines are consumed in arrival order.
type conn struct {
	c     *wire.Client
	lines chan wire.Line
	errs  chan error
}

func newConn(c *wire.Client) *conn {
	k := &conn{c: c, lines: make(chan wire.Line, 256), errs: make(chan error, 1)}
	go func() {
		for {
			l, err := c.ReadLine(30 * time.Minute)
			if err != nil {
				k.errs <- err
				close(k.lines)
				return
			}
			k.lines <- l
		}
	}()
	return k
}

// until reads lines up to the one that starts with prefix (the tagged completion, or "+"); each earlier line goes to f.
func (k *conn) until(prefix string, f func(wire.Line)) (wire.Line, error) {
	for {
		select {
		case l, ok := <-k.lines:
			if !ok {
				return wire.Line{}, fmt.Errorf("connection closed")
			}
			if strings.HasPrefix(l.Text, prefix) {
				return l, nil
			}
			f(l)
		case <-time.After(wire.DefaultTimeout):
			return wire.Line{}, fmt.Errorf("no %q within %v", prefix, wire.DefaultTimeout)
		}
	}
}

// drain consumes what has arrived already.
func (k *conn) drain(f func(wire.Line)) {
	for {
		select {
		case l, ok := <-k.lines:
			if !ok {
				return
			}
			f(l)
		default:
			return
		}
	}
}

func (k *conn) cmd(cmd string, f func(wire.Line)) (string, error) {
	tag := k.c.NextTag()
	if err := k.c.Write([]byte(tag + " " + cmd + "\r\n")); err != nil {
		return "", err
	}
	l, err := k.until(tag+" ", f)
	return strings.TrimPrefix(l.Text, tag+" "), err
}

type family struct {
	file string
	bulk time.Duration // idleBulkTime of the server the family runs on
	max  map[string]int
}

var families = []family{
	// no ticker flush: a server whose ticker never fires within a behaviour - everything pushed waits for the final flush
	{"GluonIdle.all.cfg", time.Hour, map[string]int{"quick": 500, "thorough": 0}},
	// with ticker flushes: a server with a short bulk time; a Tick step waits for the ticker
	{"GluonIdle.tick.cfg", 40 * time.Millisecond, map[string]int{"quick": 150, "thorough": 1500}},
	{"GluonIdle.all3.cfg", time.Hour, map[string]int{"quick": -1, "thorough": 6000}},
}

func lit(tag string) []byte {
	return []byte("From: v@verif.test\r\nDate: Mon, 7 Feb 1994 21:52:25 -0800\r\nSubject: " + tag + "\r\n\r\nbody " + tag + "\r\n")
}

// Run is called by the C01 check (one worker).
func Run(r *ev.Run, tier string) {
	specDir := filepath.Join(ev.Root(), "spec")
	res, err := tlc.Run(tlc.Options{SpecDir: specDir, Module: "GluonIdle", Cfg: filepath.Join(specDir, "cfg", "GluonIdle.design.cfg"), Workers: 2, Timeout: 5 * time.Minute, KeepOutput: true})
	if err != nil || res.Violated != "" || res.Error != "" || !res.Finished {
		r.Machinery("TLC on GluonIdle.design.cfg: err=%v violated=%q error=%q (model-level, not a verdict)", err, res.Violated, res.Error)
		return
	}
	r.Add("states", res.Distinct)
	r.Add("transitions", res.Generated)
	res, err = tlc.Run(tlc.Options{SpecDir: specDir, Module: "GluonIdle", Cfg: filepath.Join(specDir, "cfg", "GluonIdle.ascode.cfg"), Workers: 1, Timeout: 5 * time.Minute, KeepOutput: true})
	if err != nil || res.Violated != "ViewAgrees" {
		r.Machinery("TLC on GluonIdle.ascode.cfg was expected to report ViewAgrees violated (completion of IDLE before the sender's final flush): err=%v violated=%q error=%q", err, res.Violated, res.Error)
		return
	}
	for _, fam := range families {
		fam := fam
		max := fam.max[tier]
		if max < 0 {
			continue
		}
		var traces []*trace
		res, err := tlc.Run(tlc.Options{SpecDir: specDir, Module: "GluonIdle", Cfg: filepath.Join(specDir, "cfg", fam.file), Workers: 1, Timeout: 10 * time.Minute, KeepOutput: true,
			OnJSON: func(raw []byte) {
				var t trace
				if json.Unmarshal(raw, &t) == nil && len(t.Steps) > 0 {
					t.Cfg = fam.file
					traces = append(traces, &t)
				}
			}})
		if err != nil || res.Violated != "" || res.Error != "" || !res.Finished || len(traces) == 0 {
			r.Machinery("TLC on %s: err=%v violated=%q error=%q behaviours=%d", fam.file, err, res.Violated, res.Error, len(traces))
			return
		}
		r.Add("states", res.Distinct)
		r.Add("transitions", res.Generated)
		r.Add("idle_behaviours_enumerated", int64(len(traces)))
		sort.Slice(traces, func(i, j int) bool { return traces[i].sig() < traces[j].sig() })
		if max > 0 && len(traces) > max {
			// an even selection over the sorted behaviours, rotated by the seed
			sel := make([]*trace, 0, max)
			off := int(ev.Seed()) % len(traces)
			for i := 0; i < max; i++ {
				sel = append(sel, traces[(off+i*len(traces)/max)%len(traces)])
			}
			traces = sel
		}
		if !replayAll(r, fam, traces) {
			return
		}
	}
}

// ReplayFile re-executes one recorded behaviour.
func ReplayFile(r *ev.Run, raw json.RawMessage) bool {
	var t trace
	if json.Unmarshal(raw, &t) != nil || len(t.Steps) == 0 {
		return false
	}
	fam := families[0]
	for _, f := range families {
		if f.file == t.Cfg {
			fam = f
		}
	}
	replayAll(r, fam, []*trace{&t})
	return true
}

func replayAll(r *ev.Run, fam family, traces []*trace) bool {
	g := core.NewGate()
	defer g.Release()
	hk := &hooks{}
	g.Events = hk.event
	srv, err := fixture.StartServer(fixture.Config{IdleBulkTime: fam.bulk})
	if err != nil {
		r.Machinery("idle: cannot start a server: %v", err)
		return false
	}
	defer func() { _ = srv.Close(20 * time.Second); srv.RemoveDir() }()
	login := func(gated bool) (*wire.Client, int64, error) {
		g.SetGateNext(gated)
		defer g.SetGateNext(false)
		w, err := wire.Dial(srv.Addr)
		if err != nil {
			return nil, 0, err
		}
		if res := w.Login("user", "pass"); res.Status != "OK" {
			return nil, 0, fmt.Errorf("login: %s %s", res.Status, res.Text)
		}
		id, _ := g.LastState()
		return w, id, nil
	}
	aux, _, err := login(false)
	if err != nil {
		r.Machinery("idle: %v", err)
		return false
	}
	defer aux.Close()
	for ti, t := range traces {
		if !replayOne(r, g, hk, fam, aux, login, ti, t) {
			return false
		}
	}
	return true
}

func replayOne(r *ev.Run, g *core.Gate, hk *hooks, fam family, aux *wire.Client, login func(bool) (*wire.Client, int64, error), ti int, t *trace) bool {
	box, other := fmt.Sprintf("idle%d", ti), fmt.Sprintf("idleo%d", ti)
	var log []string
	var logMu sync.Mutex
	logf := func(f string, a ...interface{}) {
		logMu.Lock()
		defer logMu.Unlock()
		log = append(log, fmt.Sprintf(f, a...))
	}
	mach := func(f string, a ...interface{}) bool {
		r.Machinery("idle (%s #%d %s): %s\n  %s", t.Cfg, ti, t.sig(), fmt.Sprintf(f, a...), strings.Join(log, "\n  "))
		return false
	}
	for _, cmd := range []string{"CREATE " + box, "CREATE " + other} {
		if res := aux.Cmd(cmd); res.Status != "OK" {
			return mach("%s: %s %s", cmd, res.Status, res.Text)
		}
	}
	defer func() {
		aux.Cmd("DELETE " + box)
		aux.Cmd("DELETE " + other)
	}()
	for i := 1; i <= start; i++ {
		if res := aux.Append(box, "", lit(fmt.Sprintf("i%d-%d", ti, i))); res.Status != "OK" {
			return mach("APPEND: %s %s", res.Status, res.Text)
		}
	}
	// the acting session: its own snapshot follows every change at once, its sequence numbers are those of the idler's snapshot
	act, _, err := login(false)
	if err != nil {
		return mach("%v", err)
	}
	defer act.Close()
	if res := act.Cmd("SELECT " + box); res.Status != "OK" {
		return mach("actor SELECT: %s %s", res.Status, res.Text)
	}
	iw, idlerID, err := login(true)
	if err != nil {
		return mach("%v", err)
	}
	defer iw.Close()
	mir := &mirror{}
	id := newConn(iw)
	apply := func(l wire.Line) {
		logf("      %s", l.Text)
		mir.line(l, logf)
	}
	if st, err := id.cmd("SELECT "+box, apply); err != nil || !strings.HasPrefix(st, "OK") {
		return mach("idler SELECT: %s %v", st, err)
	}
	logf("[i] SELECT -> the client counts %d messages", len(mir.m))
	flags := make([]bool, start) // \Seen by position: kept in step with the model's snapshot
	napp := 0
	// change performs one change of the model through the acting session and hands every resulting update to the idler
	change := func(k string, n int) bool {
		switch k {
		case "exists":
			napp++
			if res := act.Append(box, "", lit(fmt.Sprintf("i%d-n%d", ti, napp))); res.Status != "OK" {
				return mach("APPEND: %s %s", res.Status, res.Text)
			}
			flags = append(flags, false)
		case "expunge":
			if res := act.Cmd(fmt.Sprintf("MOVE %d %s", n, other)); res.Status != "OK" {
				return mach("MOVE %d: %s %s", n, res.Status, res.Text)
			}
			flags = append(flags[:n-1], flags[n:]...)
		case "seen":
			op := "+"
			if flags[n-1] {
				op = "-"
			}
			if res := act.Cmd(fmt.Sprintf(`STORE %d %sFLAGS.SILENT (\Seen)`, n, op)); res.Status != "OK" {
				return mach("STORE %d: %s %s", n, res.Status, res.Text)
			}
			flags[n-1] = !flags[n-1]
		}
		if g.Pending(idlerID) == 0 {
			return mach("the change %s %d queued no update for the idling session", k, n)
		}
		for g.Pending(idlerID) > 0 {
			u, passed, err := g.Deliver(idlerID)
			if err != nil {
				return mach("deliver: %v", err)
			}
			logf("[i] applies %s (passed its filter: %v)", u, passed)
		}
		return true
	}
	idleTag := iw.NextTag()
	if err := iw.Write([]byte(idleTag + " IDLE\r\n")); err != nil {
		return mach("IDLE: %v", err)
	}
	if _, err := id.until("+", apply); err != nil {
		return mach("IDLE: %v", err)
	}
	logf("[i] IDLE -> + (continuation)")
	hk.arm()
	finalDone, completed := false, false
	final := func() bool {
		if finalDone {
			return true
		}
		finalDone = true
		select {
		case <-hk.parked:
		case <-time.After(30 * time.Second):
			return mach("the sender goroutine did not reach its final flush within 30 s of the end of IDLE")
		}
		close(hk.free)
		select {
		case <-hk.ended:
		case <-time.After(30 * time.Second):
			return mach("the sender goroutine did not end within 30 s of its release")
		}
		logf("[sender] final flush, ended")
		return true
	}
	probe := func(what string) bool {
		var report []wire.Ev
		st, err := id.cmd("FETCH 1:* (UID FLAGS)", func(l wire.Line) {
			for _, e := range wire.Events([]wire.Line{l}) {
				if e.Kind == "FETCH" && e.UID != 0 {
					// the server's report
					if e.N > len(mir.m) && mir.bad == "" {
						mir.bad = fmt.Sprintf("count-differs: the server reports %q while the client counts %d messages", l.Text, len(mir.m))
					}
					report = append(report, e)
					logf("      %s", l.Text)
					return
				}
			}
			apply(l)
		})
		if err != nil {
			return mach("%s: %v", what, err)
		}
		logf("[i] %s FETCH 1:* (UID FLAGS) -> %s: %d messages reported, the client counts %d", what, st, len(report), len(mir.m))
		if mir.bad != "" {
			return true
		}
		if len(report) != len(mir.m) {
			mir.bad = fmt.Sprintf("count-differs: the server reports %d messages, the client counts %d", len(report), len(mir.m))
			return true
		}
		sort.SliceStable(report, func(i, j int) bool { return report[i].N < report[j].N })
		for i, e := range report {
			if e.N != i+1 || (i > 0 && report[i-1].UID >= e.UID) {
				mir.bad = fmt.Sprintf("report-not-dense-ascending: position %d is sequence number %d uid %d", i+1, e.N, e.UID)
				return true
			}
			srv := "F"
			for _, f := range e.Flags {
				if strings.EqualFold(f, `\Seen`) {
					srv = "T"
				}
			}
			if mir.m[i] != "?" && mir.m[i] != srv {
				mir.bad = fmt.Sprintf("flags-differ: the server reports \\Seen=%s for sequence number %d, the client learned %s", srv, e.N, mir.m[i])
				return true
			}
			mir.m[i] = srv
		}
		return true
	}
	for _, s := range t.Steps {
		if mir.bad != "" {
			break
		}
		switch s.Act {
		case "Push":
			if completed {
				return mach("Push after the completion of IDLE in the behaviour")
			}
			logf("[act] pushes %s %d", s.K, s.N)
			if !change(s.K, s.N) {
				return false
			}
		case "Tick":
			time.Sleep(3*fam.bulk + 20*time.Millisecond)
			id.drain(apply)
			logf("[sender] ticker (waited %v)", 3*fam.bulk+20*time.Millisecond)
		case "Done":
			if err := iw.Write([]byte("DONE\r\n")); err != nil {
				return mach("DONE: %v", err)
			}
			logf("[i] DONE")
			// either the tagged completion arrives (the sender may still be parked), or the session waits for the sender
			got := make(chan error, 1)
			go func() {
				_, err := id.until(idleTag+" ", apply)
				got <- err
			}()
			select {
			case err := <-got:
				if err != nil {
					return mach("DONE: %v", err)
				}
				logf("[i] %s OK (completion of IDLE)", idleTag)
			case <-hk.waiting:
				logf("[i] the session waits for the sender before it completes IDLE")
				if !final() {
					return false
				}
				if err := <-got; err != nil {
					return mach("DONE: %v", err)
				}
				logf("[i] %s OK (completion of IDLE)", idleTag)
				r.Add("idle_completion_waited_for_the_sender", 1)
			case <-time.After(30 * time.Second):
				return mach("neither the completion of IDLE nor the idle.wait event within 30 s of DONE")
			}
			completed = true
		case "Final":
			if !completed {
				return mach("Final before Done in the behaviour")
			}
			if !final() {
				return false
			}
		case "Ok":
		case "Probe":
			if !probe("probe") {
				return false
			}
		case "After":
			logf("[act] after IDLE: %s %d", s.K, s.N)
			if !change(s.K, s.N) {
				return false
			}
			st, err := id.cmd("NOOP", apply)
			if err != nil {
				return mach("NOOP: %v", err)
			}
			logf("[i] NOOP -> %s", st)
		}
	}
	if mir.bad == "" {
		if !completed {
			return mach("behaviour without Done")
		}
		if !final() {
			return false
		}
		// everything the sender wrote is in front of this NOOP's completion
		if _, err := id.cmd("NOOP", apply); err != nil {
			return mach("NOOP: %v", err)
		}
		if mir.bad == "" && !probe("last probe") {
			return false
		}
	} else if !finalDone && completed {
		final()
	}
	if !finalDone {
		// the behaviour stopped inside IDLE: closing the connection ends it; the sender is not parked (or let go)
		hk.mu.Lock()
		hk.armed = false
		hk.mu.Unlock()
		close(hk.free)
	}
	iw.Close()
	r.Eval("idle:"+t.Cfg+":"+t.sig(), true)
	r.Add("traces_validated_against_impl", 1)
	r.Add("idle_behaviours_replayed", 1)
	if mir.bad != "" {
		kind := mir.bad
		if i := strings.Index(kind, ":"); i > 0 {
			kind = kind[:i]
		}
		r.Violate("C01/idle/"+kind, fmt.Sprintf("%s (the specification predicts %q for this behaviour with the sender running late)\nbehaviour (%s):\n  %s",
			mir.bad, t.Bad, t.Cfg, strings.Join(log, "\n  ")), map[string]interface{}{"idle": t})
	} else if t.Bad != "" {
		r.Add("idle_model_disagreement_not_observed", 1)
	}
	if ti == 0 {
		r.Sample(map[string]interface{}{"source": t.Cfg, "concrete": log})
	}
	return true
}
