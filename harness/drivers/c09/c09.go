// Package c09: the message store returns exactly the stored bytes or an error (GluonStore.tla).
//
//	KV layer    TLC explores Set/SetUnchecked/Get/Delete/List exhaustively and prints every transition;
//	            a covering walk is replayed on store.NewWriteControlledStore(store.NewOnDiskStore(..)),
//	            reply and full state (List + Get of every id) compared after every step.
//	File layer  TLC enumerates (content class, corruption class, position); each case is applied to a
//	            file the real store wrote and Get must fail or return the stored bytes.
//	Conc layer  TLC checks the lock table design (and that the properties depend on the lock and on the
//	            atomic release); goroutine runs on the real store are recorded and TLC decides whether
//	            each recording is a behaviour of the specification (GluonStoreTrace.tla).
package c09

import (
	"encoding/json"
	"fmt"
	"math/rand"
	"os"
	"path/filepath"
	"sort"
	"strings"
	"sync"
	"time"

	"github.com/ProtonMail/gluon/verif/drivers"
	"github.com/ProtonMail/gluon/verif/pkg/ev"
	"github.com/ProtonMail/gluon/verif/pkg/tlc"
)

func init() { drivers.Register("C09", "model_checking", run) }

type tierCfg struct {
	kvCfgs      []string // cfg names of the KV layer
	kvCover     float64  // fraction of transitions the walk must cover
	tourMulti   int      // bytes of class "multi" in the tour
	fileCfg     string
	fileMulti   int
	fileReps    int
	zerosFor    map[string]bool // classes that also get the 250:1 variant
	concCfg     string
	diskRounds  []roundCfg
	diskN       int // rounds per disk configuration
	memRounds   []roundCfg
	memN        int
	sampleDisk  int // recordings validated by TLC besides the suspicious ones
	sampleMem   int
	maxSuspects int
}

func tiers(tier string) tierCfg {
	if tier == "thorough" {
		return tierCfg{
			kvCfgs: []string{"kv.quick", "kv.thorough"}, kvCover: 1, tourMulti: 2<<20 + 4096,
			fileCfg: "file.thorough", fileMulti: 8 << 20, fileReps: 8,
			zerosFor: map[string]bool{"Bm1": true, "B": true, "Bp1": true, "Bp4": true, "BAlign": true, "2B": true, "2Bp1": true},
			concCfg:  "conc.thorough",
			diskRounds: []roundCfg{
				{Stack: "disk", Procs: 4, Ops: 6, Ids: []string{"a"}, BigEvery: 3},
				{Stack: "disk", Procs: 6, Ops: 6, Ids: []string{"a", "b", "c"}, BigEvery: 4},
				{Stack: "disk", Procs: 8, Ops: 4, Ids: []string{"a", "b"}},
			},
			diskN: 400,
			memRounds: []roundCfg{
				{Stack: "mem", Procs: 6, Ops: 10, Ids: []string{"a"}},
				{Stack: "mem", Procs: 8, Ops: 10, Ids: []string{"a"}, GetPct: 70},
				{Stack: "mem", Procs: 8, Ops: 8, Ids: []string{"a", "b"}},
			},
			memN: 20000, sampleDisk: 150, sampleMem: 150, maxSuspects: 6,
		}
	}
	return tierCfg{
		kvCfgs: []string{"kv.quick"}, kvCover: 1, tourMulti: 2<<20 + 4096,
		fileCfg: "file.quick", fileMulti: 2 << 20, fileReps: 2,
		zerosFor: map[string]bool{"B": true},
		concCfg:  "conc.quick",
		diskRounds: []roundCfg{
			{Stack: "disk", Procs: 4, Ops: 6, Ids: []string{"a"}, BigEvery: 3},
			{Stack: "disk", Procs: 6, Ops: 6, Ids: []string{"a", "b", "c"}, BigEvery: 4},
		},
		diskN: 60,
		memRounds: []roundCfg{
			{Stack: "mem", Procs: 6, Ops: 10, Ids: []string{"a"}},
			{Stack: "mem", Procs: 8, Ops: 10, Ids: []string{"a"}, GetPct: 70},
		},
		memN: 4000, sampleDisk: 30, sampleMem: 30, maxSuspects: 4,
	}
}

type modelRun struct {
	name    string
	module  string
	expect  string // "" = must pass; else the invariant that must be reported violated
	res     *tlc.Result
	err     error
	onJSON  func([]byte)
	workers int
}

func (m *modelRun) run() {
	m.res, m.err = tlc.Run(tlc.Options{
		SpecDir: filepath.Join(ev.Root(), "spec"), Module: "GluonStore",
		Cfg:     filepath.Join(ev.Root(), "spec", "cfg", "GluonStore."+m.name+".cfg"),
		Workers: m.workers, Timeout: 20 * time.Minute, KeepOutput: true, OnJSON: m.onJSON,
	})
}

// ok turns anything but the expected end of the run into a machinery problem.
func (m *modelRun) ok(r *ev.Run) bool {
	if m.err != nil {
		r.Machinery("tlc %s: %v", m.name, m.err)
		return false
	}
	res := m.res
	if m.expect == "" {
		if res.Violated != "" || res.Error != "" || !res.Finished || res.TimedOut {
			r.Machinery("TLC on GluonStore (%s) did not finish cleanly: violated=%q error=%q timeout=%v\n%s", m.name, res.Violated, res.Error, res.TimedOut, tail(res.Output))
			return false
		}
		return true
	}
	if res.Violated != m.expect || res.TimedOut {
		r.Machinery("TLC on GluonStore (%s) was expected to report %s violated (non-vacuity test), got violated=%q error=%q timeout=%v\n%s", m.name, m.expect, res.Violated, res.Error, res.TimedOut, tail(res.Output))
		return false
	}
	return true
}

type check struct {
	r    *ev.Run
	tier string
	t    tierCfg
	seed int64
	rnd  *rand.Rand

	states, transitions int64
	validated           int64
}

func run(r *ev.Run, tier, replay string) {
	var err error
	if probe, err = newProber(); err != nil {
		r.Machinery("probe store: %v", err)
		return
	}
	defer probe.close()
	defer func() {
		if p := recover(); p != nil {
			if s, ok := p.(string); ok && strings.HasPrefix(s, "probe store:") {
				r.Machinery("%s", s)
				return
			}
			panic(p)
		}
	}()
	c := &check{r: r, tier: tier, t: tiers(tier), seed: ev.Seed()}
	c.rnd = rand.New(rand.NewSource(c.seed))
	if replay != "" {
		c.replay(replay)
		return
	}

	// --- all model runs, side by side ---
	var kvSteps = map[string][]*kvStep{}
	var cases []fcase
	var mu sync.Mutex
	var runs []*modelRun
	for _, name := range c.t.kvCfgs {
		name := name
		runs = append(runs, &modelRun{name: name, workers: 4, onJSON: func(raw []byte) {
			var s kvStep
			if json.Unmarshal(raw, &s) == nil && s.Act.Op != "" {
				mu.Lock()
				kvSteps[name] = append(kvSteps[name], &s)
				mu.Unlock()
			}
		}})
	}
	fileRun := &modelRun{name: c.t.fileCfg, workers: 2, onJSON: func(raw []byte) {
		var f fcase
		if json.Unmarshal(raw, &f) == nil && f.Cls != "" {
			mu.Lock()
			cases = append(cases, f)
			mu.Unlock()
		}
	}}
	concRun := &modelRun{name: c.t.concCfg, workers: 6}
	nolock := &modelRun{name: "conc.nolock", workers: 2, expect: "ReadersSeeCompleteValue"}
	ascode := &modelRun{name: "conc.ascode", workers: 2, expect: "ReadersSeeCompleteValue"}
	fileCode := &modelRun{name: "file.code", workers: 2, expect: "CorruptNeverYieldsOtherBytes"}
	runs = append(runs, fileRun, concRun, nolock, ascode, fileCode)
	var wg sync.WaitGroup
	for _, m := range runs {
		wg.Add(1)
		go func(m *modelRun) { defer wg.Done(); m.run() }(m)
	}
	wg.Wait()
	good := true
	models := map[string]interface{}{}
	for _, m := range runs {
		if !m.ok(r) {
			good = false
			continue
		}
		models[m.name] = map[string]interface{}{"distinct": m.res.Distinct, "generated": m.res.Generated, "depth": m.res.Depth,
			"wall_s": m.res.Wall.Seconds(), "violated": m.res.Violated}
		if m.expect == "" {
			c.states += m.res.Distinct
			c.transitions += m.res.Generated
		}
	}
	if !good {
		return
	}
	r.Set("tlc_runs", models)
	r.Set("non_vacuity", map[string]string{
		"conc.nolock": "UseLock=FALSE: TLC reports ReadersSeeCompleteValue violated (the property depends on the per-id lock)",
		"conc.ascode": "AtomicRelease=FALSE (release as write_controlled_store.go has it): TLC reports ReadersSeeCompleteValue violated (a late table removal deletes a newer entry; two callers of one id hold different locks)",
		"file.code":   "Design=code (no block position / id bound, end of stream not required): TLC reports CorruptNeverYieldsOtherBytes violated",
	})

	// --- KV layer: covering walk on the real store ---
	for _, name := range c.t.kvCfgs {
		steps := kvSteps[name]
		var m *modelRun
		for _, x := range runs {
			if x.name == name {
				m = x
			}
		}
		if int64(len(steps)) != m.res.Generated-1 {
			r.Machinery("%s: TLC generated %d states but printed %d transitions", name, m.res.Generated, len(steps))
			return
		}
		if !c.tour(name, steps) {
			return
		}
	}

	// --- File layer ---
	if int64(len(cases)) != fileRun.res.Distinct {
		r.Machinery("%s: TLC found %d cases but printed %d", c.t.fileCfg, fileRun.res.Distinct, len(cases))
		return
	}
	if !c.corruption(cases) {
		return
	}

	// --- Concurrency ---
	c.concurrency()

	r.Set("states", c.states)
	r.Set("transitions", c.transitions)
	r.Set("traces_validated_against_impl", c.validated)
	r.Set("rule", "evaluation = one replayed KV transition (reply and full state compared), one corruption case (content class x variant x corruption class x position x seeded offset) or one recorded concurrent history validated by TLC; non-trivial = every corruption case and history, and every KV step except Get/List/failed Delete in the empty store; distinct by (state, action), (case, variant, repetition), (stack, round)")
	r.Assumptions = []string{
		"content classes are instantiated by searching inputs whose compressed stream, as measured on files the real store wrote, has the length the class names (B = 262144 bytes of compressed stream per encrypted block)",
		"the corruption classes are applied to the file at seeded offsets; 'multi' is 6 blocks in the model and mapped to the first three / last three blocks of the real file",
		"concurrent runs: events are ordered by one atomic counter; enter/exit are recorded by a pass-through store between WriteControlledStore and the on-disk store; the lock-table stress uses an in-memory store (harness code) under the real WriteControlledStore",
		"which recordings TLC validates besides a seeded sample is chosen by a hint computed in Go (overlap of enter/exit, unexpected reply); the hint is never a verdict",
		"Delete of an id that is not stored is an error and leaves the earlier ids of the same call deleted (the specification follows the code here; the property does not say)",
	}
}

// instantiate builds one content per class, the variant chosen by the seed.
func (c *check) instantiate(classes []string, multi int) (map[string]*content, map[string]string, error) {
	variants := []string{"rand", "text", "mixed"}
	out := map[string]*content{}
	chosen := map[string]string{}
	sort.Strings(classes)
	for i, cl := range classes {
		v := variants[(int(c.seed)+i)%len(variants)]
		ct, err := build(cl, v, c.seed, multi)
		if err != nil {
			return nil, nil, err
		}
		out[cl] = ct
		chosen[cl] = v
	}
	return out, chosen, nil
}

func classesOf(steps []*kvStep) ([]string, []string) {
	cs, ids := map[string]bool{}, map[string]bool{}
	for _, s := range steps {
		if s.Act.C != "" {
			cs[s.Act.C] = true
		}
		for k := range s.Pre {
			ids[k] = true
		}
	}
	var a, b []string
	for k := range cs {
		a = append(a, k)
	}
	for k := range ids {
		b = append(b, k)
	}
	sort.Strings(a)
	sort.Strings(b)
	return a, b
}

func (c *check) tour(name string, steps []*kvStep) bool {
	r := c.r
	classes, ids := classesOf(steps)
	contents, chosen, err := c.instantiate(classes, c.t.tourMulti)
	if err != nil {
		r.Machinery("cannot instantiate the content classes: %v", err)
		return false
	}
	init := map[string]string{}
	for _, id := range ids {
		init[id] = "absent"
	}
	want := make([]bool, len(steps))
	n := 0
	for i := range want {
		want[i] = c.t.kvCover >= 1 || c.rnd.Float64() < c.t.kvCover
		if want[i] {
			n++
		}
	}
	walk, err := tour(steps, stateKey(init), want, c.rnd)
	if err != nil {
		r.Machinery("%s: %v", name, err)
		return false
	}
	rig, err := newKVRig(contents, ids, c.seed%2 == 0)
	if err != nil {
		r.Machinery("store: %v", err)
		return false
	}
	defer rig.close()
	started := time.Now()
	ok := c.walk(rig, walk, chosen, c.t.tourMulti)
	r.Set("tour_"+strings.ReplaceAll(name, ".", "_"), map[string]interface{}{"transitions": len(steps), "covered": n, "walk_length": len(walk),
		"variants": chosen, "wall_s": time.Since(started).Seconds()})
	r.Set("exhaustive", c.t.kvCover >= 1) // every transition TLC found is replayed; every File case is executed
	return ok
}

// walk replays steps on the rig; false = stop the check (machinery problem).
func (c *check) walk(rig *kvRig, walk []*kvStep, chosen map[string]string, multi int) bool {
	r := c.r
	for i, s := range walk {
		st, val, ids, err := rig.exec(s)
		if err != nil {
			r.Machinery("tour: %v", err)
			return false
		}
		kv, list, err := rig.observe()
		if err != nil {
			r.Machinery("List: %v", err)
			return false
		}
		empty := len(present(s.Pre)) == 0
		r.Eval(s.sig(), !(empty && s.Act.Op != "Set" && s.Act.Op != "SetUnchecked"))
		c.validated++
		if kind, detail := mismatch(s, st, val, ids, kv, list); kind != "" {
			from := i - 12
			if from < 0 {
				from = 0
			}
			// the walk is a path from the initial state: keep all of it so that the replay is faithful
			r.Violate(fmt.Sprintf("kv/%s/%s", s.Act.Op, kind),
				fmt.Sprintf("step %d of the walk: %s\n%s\n(last steps: %s)", i+1, stepText(s), detail, lastSteps(walk[from:i+1])),
				tourReplay{Kind: "tour", Seed: c.seed, Variants: chosen, Multi: multi, Steps: walk[:i+1]})
			// the real store and the specification now disagree about the state: resynchronise
			if !c.resync(rig, s.Post) {
				return false
			}
		}
		if i%997 == 0 {
			r.Sample(map[string]interface{}{"kind": "kv step", "pre": s.Pre, "action": s.Act, "post": s.Post, "observed_state": kv, "observed_list": list})
		}
	}
	return true
}

func lastSteps(w []*kvStep) string {
	var p []string
	for _, s := range w {
		p = append(p, fmt.Sprintf("%s(%s %s)", s.Act.Op, strings.Join(s.Act.Ids, ","), s.Act.C))
	}
	return strings.Join(p, " ")
}

// resync forces the real store into the given abstract state (after a reported mismatch).
func (c *check) resync(rig *kvRig, want map[string]string) bool {
	for id, v := range want {
		_ = rig.st.Delete(rig.ids[id])
		if v != "absent" {
			if err := rig.st.Set(rig.ids[id], strings.NewReader(string(rig.contents[v].Data))); err != nil {
				c.r.Machinery("resync: %v", err)
				return false
			}
		}
	}
	return true
}

func (c *check) variantsFor(class string) []string {
	if class == "empty" || class == "one" {
		return []string{"rand", "text"}
	}
	v := []string{"rand", "text", "mixed"}
	if c.t.zerosFor[class] {
		v = append(v, "zeros")
	}
	if class == "4Bp" {
		v = append(v, "rawhdr")
	}
	return v
}

func (c *check) corruption(cases []fcase) bool {
	r := c.r
	sort.Slice(cases, func(i, j int) bool {
		a, b := cases[i], cases[j]
		if a.C != b.C {
			return a.C < b.C
		}
		if a.Cls != b.Cls {
			return a.Cls < b.Cls
		}
		return a.At[0]*10+a.At[1] < b.At[0]*10+b.At[1]
	})
	k := &corruptor{seed: c.seed, multi: c.t.fileMulti}
	counts := map[string]int{}
	agree, disagree := 0, 0
	var notes []string
	started := time.Now()
	for _, fc := range cases {
		for _, v := range c.variantsFor(fc.C) {
			for rep := 0; rep < c.t.fileReps; rep++ {
				res, err := k.run(fc, v, rep)
				if err != nil {
					r.Machinery("corruption case %v/%s: %v", fc, v, err)
					return false
				}
				r.Eval(fmt.Sprintf("corrupt|%s|%s|%s|%v|%d", fc.C, v, fc.Cls, fc.At, rep), true)
				c.validated++
				counts[res.Outcome]++
				if res.Outcome == fc.Code || (fc.Code == "other" && res.Outcome == "error") {
					agree++
				} else {
					disagree++
					if len(notes) < 10 {
						notes = append(notes, fmt.Sprintf("%s/%s %s %v: code design predicts %s, real store: %s", fc.C, v, fc.Cls, fc.At, fc.Code, res.Outcome))
					}
				}
				if res.Outcome != "error" && res.Outcome != "same" {
					key := fmt.Sprintf("corrupt/%s/%s", fc.Cls, fc.C)
					if res.Outcome == "panic" {
						key = fmt.Sprintf("corrupt-panic/%s/%s", fc.Cls, fc.C)
					}
					r.Violate(key, fmt.Sprintf("content class %s (%s, %d bytes, compressed stream %d bytes, %d blocks), file of %d bytes: %s\nGet: %s\nthe specification allows an error or the stored bytes (intended design: %s)",
						fc.C, v, len(k.cache[fc.C+"/"+v].c.Data), k.cache[fc.C+"/"+v].l, res.Blocks, res.FileLen, res.What, res.Detail, fc.Exp),
						creplay{Kind: "corrupt", Case: fc, Variant: v, Seed: c.seed, Rep: rep, Multi: c.t.fileMulti})
				}
				if rep == 0 && v == "rand" && (fc.Cls == "cutMidBlock" || fc.Cls == "flipTag") && fc.At[0] == 1 && fc.C == "Bp1" {
					r.Sample(map[string]interface{}{"kind": "corruption", "case": fc, "variant": v, "damage": res.What, "get": res.Outcome + ": " + res.Detail})
				}
			}
		}
		// the 60 MB instances are not kept longer than their class
		for key, e := range k.cache {
			if !strings.HasPrefix(key, fc.C+"/") && len(e.c.Data) > 16<<20 {
				delete(k.cache, key)
			}
		}
	}
	r.Set("corruption", map[string]interface{}{"cases_from_tlc": len(cases), "outcomes": counts, "repetitions_per_case_and_variant": c.t.fileReps,
		"agrees_with_code_design_of_the_spec": agree, "differs_from_code_design": disagree, "differences": notes, "wall_s": time.Since(started).Seconds()})
	return true
}

func (c *check) concurrency() {
	r := c.r
	type pick struct {
		h   *history
		sus bool
	}
	started := time.Now()
	stats := map[string]interface{}{}
	for _, grp := range []struct {
		name   string
		cfgs   []roundCfg
		n      int
		sample int
	}{{"disk", c.t.diskRounds, c.t.diskN, c.t.sampleDisk}, {"mem", c.t.memRounds, c.t.memN, c.t.sampleMem}} {
		var suspects, others []*history
		rounds, calls := 0, 0
		roundsStart := time.Now()
		for ci, cfg := range grp.cfgs {
			for i := 0; i < grp.n; i++ {
				round := ci*1000000 + i
				h, sus, foreign, err := runRound(cfg, round, c.seed)
				if err != nil {
					r.Machinery("concurrent round: %v", err)
					return
				}
				rounds++
				calls += cfg.Procs * cfg.Ops
				if foreign != "" {
					h.Note = foreign
					r.Violate("conc/get-foreign-bytes/"+cfg.Stack, "a Get returned bytes that were never stored under that id: "+foreign+"\n"+historyText(h),
						map[string]interface{}{"kind": "conc", "history": h})
				}
				switch {
				case sus && len(suspects) < c.t.maxSuspects:
					suspects = append(suspects, h)
				case !sus && len(others) < grp.sample && c.rnd.Intn(grp.n*len(grp.cfgs)) < 2*grp.sample:
					others = append(others, h)
				}
			}
		}
		roundsWall := time.Since(roundsStart).Seconds()
		var tlcStates int64
		var tlcWall float64
		accepted, rejected := 0, 0
		judge := func(hs []*history) bool {
			// validate a batch; on a finding isolate the recording, report it, go on with the rest
			for len(hs) > 0 {
				v := validate(hs)
				tlcStates += v.States
				tlcWall += v.Wall.Seconds()
				if v.Problem != "" {
					r.Machinery("trace validation: %s", v.Problem)
					return false
				}
				if v.Accepted {
					accepted += len(hs)
					for _, h := range hs {
						r.Eval(fmt.Sprintf("conc|%s|%d", h.Stack, h.Round), true)
						c.validated++
					}
					return true
				}
				_, first := ndjson(hs)
				idx := 0
				for i, f := range first {
					if f <= v.At {
						idx = i
					}
				}
				accepted += idx
				for _, h := range hs[:idx] {
					r.Eval(fmt.Sprintf("conc|%s|%d", h.Stack, h.Round), true)
					c.validated++
				}
				bad := hs[idx]
				// the recording alone must be refused as well, otherwise this is not a verdict
				single := validate([]*history{bad})
				tlcStates += single.States
				if single.Problem != "" || single.Accepted {
					r.Machinery("trace validation: recording %s/%d is refused in a batch (line %d) but not alone (%s)", bad.Stack, bad.Round, v.At, single.Problem)
					return false
				}
				rejected++
				r.Eval(fmt.Sprintf("conc|%s|%d", bad.Stack, bad.Round), true)
				c.validated++
				c.reportHistory(bad, single)
				hs = hs[idx+1:]
			}
			return true
		}
		if !judge(suspects) || !judge(others) {
			return
		}
		c.states += tlcStates
		stats[grp.name] = map[string]interface{}{"rounds": rounds, "calls": calls, "recordings_flagged_by_hint": len(suspects),
			"recordings_validated_by_tlc": len(suspects) + len(others), "accepted": accepted, "refused": rejected,
			"tlc_states": tlcStates, "tlc_wall_s": tlcWall, "rounds_wall_s": roundsWall}
		if len(others) > 0 {
			h := others[0]
			n := len(h.Events)
			if n > 10 {
				n = 10
			}
			r.Sample(map[string]interface{}{"kind": "recorded history (first events)", "stack": h.Stack, "events": h.Events[:n]})
		}
	}
	stats["wall_s"] = time.Since(started).Seconds()
	r.Set("concurrency", stats)
}

func (c *check) reportHistory(h *history, v traceVerdict) {
	line := v.At - 1 // line 1 is the reset
	what := ""
	if line >= 1 && line <= len(h.Events) {
		b, _ := json.Marshal(h.Events[line-1])
		what = string(b)
	}
	if v.Exclusion {
		c.r.Violate("conc/exclusion-lost/"+h.Stack,
			fmt.Sprintf("WriteControlledStore let a Set or Delete run inside the wrapped store together with another call on the same id (TraceExclusion, the MutualExclusion invariant of GluonStore on the observed events, is violated at event %d: %s)\n%s", line, what, historyWindow(h, line)),
			map[string]interface{}{"kind": "conc", "history": h})
		return
	}
	op := "?"
	cur := map[string]string{}
	for i, e := range h.Events {
		if e.E == "start" {
			cur[e.P] = e.Op
		}
		if i == line-1 {
			op = cur[e.P]
		}
	}
	c.r.Violate(fmt.Sprintf("conc/not-linearizable/%s/%s", h.Stack, op),
		fmt.Sprintf("the recorded history is not a behaviour of GluonStore: whatever the order of the calls, event %d cannot happen: %s\n%s", line, what, historyWindow(h, line)),
		map[string]interface{}{"kind": "conc", "history": h})
}

func historyText(h *history) string { return historyWindow(h, 0) }

// historyWindow prints the events around event number at (1-based; 0 = from the beginning).
func historyWindow(h *history, at int) string {
	var b strings.Builder
	from := 0
	if at > 60 {
		from = at - 60
		fmt.Fprintf(&b, "  ... %d earlier events\n", from)
	}
	for i, e := range h.Events {
		if i < from {
			continue
		}
		if i >= from+90 {
			fmt.Fprintf(&b, "  ... %d more events\n", len(h.Events)-i)
			break
		}
		switch e.E {
		case "start":
			fmt.Fprintf(&b, "  %3d %s start %s(%s %s)\n", i+1, e.P, e.Op, e.ID, e.C)
		case "end":
			fmt.Fprintf(&b, "  %3d %s end   %s %s\n", i+1, e.P, e.St, e.Val)
		default:
			fmt.Fprintf(&b, "  %3d %s %s\n", i+1, e.P, e.E)
		}
	}
	return b.String()
}

// replay re-executes a stored failing case.
func (c *check) replay(path string) {
	r := c.r
	b, err := os.ReadFile(path)
	if err != nil {
		r.Machinery("replay: %v", err)
		return
	}
	var rp struct {
		Replay json.RawMessage `json:"replay"`
	}
	var kind struct {
		Kind string `json:"kind"`
	}
	if err := json.Unmarshal(b, &rp); err != nil || json.Unmarshal(rp.Replay, &kind) != nil {
		r.Machinery("replay file: %v", err)
		return
	}
	r.Set("states", 1)
	r.Set("transitions", 1)
	switch kind.Kind {
	case "tour":
		var t tourReplay
		if err := json.Unmarshal(rp.Replay, &t); err != nil {
			r.Machinery("replay file: %v", err)
			return
		}
		c.seed = t.Seed
		classes, ids := classesOf(t.Steps)
		contents := map[string]*content{}
		for _, cl := range classes {
			ct, err := build(cl, t.Variants[cl], t.Seed, t.Multi)
			if err != nil {
				r.Machinery("%v", err)
				return
			}
			contents[cl] = ct
		}
		rig, err := newKVRig(contents, ids, t.Seed%2 == 0)
		if err != nil {
			r.Machinery("store: %v", err)
			return
		}
		defer rig.close()
		c.walk(rig, t.Steps, t.Variants, t.Multi)
	case "corrupt":
		var cr creplay
		if err := json.Unmarshal(rp.Replay, &cr); err != nil {
			r.Machinery("replay file: %v", err)
			return
		}
		c.seed = cr.Seed
		c.t.fileMulti = cr.Multi
		k := &corruptor{seed: cr.Seed, multi: cr.Multi}
		res, err := k.run(cr.Case, cr.Variant, cr.Rep)
		if err != nil {
			r.Machinery("%v", err)
			return
		}
		r.Eval("replay", true)
		c.validated++
		if res.Outcome != "error" && res.Outcome != "same" {
			r.Violate(fmt.Sprintf("corrupt/%s/%s", cr.Case.Cls, cr.Case.C), fmt.Sprintf("%s/%s: %s\nGet: %s", cr.Case.C, cr.Variant, res.What, res.Detail), cr)
		}
	case "conc":
		var cc struct {
			History *history `json:"history"`
		}
		if err := json.Unmarshal(rp.Replay, &cc); err != nil || cc.History == nil {
			r.Machinery("replay file: %v", err)
			return
		}
		// the recording is the case: TLC judges it again
		v := validate([]*history{cc.History})
		if v.Problem != "" {
			r.Machinery("trace validation: %s", v.Problem)
			return
		}
		r.Eval("replay", true)
		c.validated++
		if cc.History.Note != "" {
			r.Violate("conc/get-foreign-bytes/"+cc.History.Stack, cc.History.Note+"\n"+historyText(cc.History), map[string]interface{}{"kind": "conc", "history": cc.History})
		}
		if !v.Accepted {
			c.reportHistory(cc.History, v)
		}
	default:
		r.Machinery("replay file: unknown kind %q", kind.Kind)
	}
	r.Set("traces_validated_against_impl", c.validated)
}
