package c09

import (
	"bytes"
	"errors"
	"fmt"
	"io/fs"
	"math/rand"
	"os"
	"path/filepath"
	"runtime/debug"

	"github.com/ProtonMail/gluon/imap"
	"github.com/ProtonMail/gluon/store"
)

// fcase is one state of the File layer as TLC printed it.
type fcase struct {
	C      string `json:"c"`
	Cls    string `json:"cls"`
	At     []int  `json:"at"`
	Blocks int    `json:"blocks"`
	Exp    string `json:"exp"`  // outcome under the intended design
	Code   string `json:"code"` // outcome the AsCode design predicts (diagnostics only)
}

// creplay is what --replay needs to run one corruption case again.
type creplay struct {
	Kind    string `json:"kind"` // "corrupt"
	Case    fcase  `json:"case"`
	Variant string `json:"variant"`
	Seed    int64  `json:"seed"`
	Rep     int    `json:"rep"`
	Multi   int    `json:"multi_bytes"`
}

var (
	idA = mustID("00000000-0000-4000-8000-000000000001")
	idB = mustID("00000000-0000-4000-8000-000000000002")
	idC = mustID("00000000-0000-4000-8000-000000000003")
)

func mustID(s string) imap.InternalMessageID {
	id, err := imap.InternalMessageIDFromString(s)
	if err != nil {
		panic(err)
	}
	return id
}

// goodFile stores the content under idA in a fresh store with the given passphrase and returns the file.
func goodFile(c *content, id imap.InternalMessageID, pass string) ([]byte, error) {
	dir, err := os.MkdirTemp("", "c09-good-")
	if err != nil {
		return nil, err
	}
	defer os.RemoveAll(dir)
	st, err := (&store.OnDiskStoreBuilder{}).New(dir, "u", []byte(pass))
	if err != nil {
		return nil, err
	}
	if err := st.Set(id, bytes.NewReader(c.Data)); err != nil {
		return nil, fmt.Errorf("Set: %w", err)
	}
	return os.ReadFile(filepath.Join(dir, "u", id.String()))
}

// realBlock maps a block index of the model (1..Blocks) to a block of the real file (1..real):
// the first three and the last ones coincide, what the model calls "many" is stretched in the middle.
func realBlock(k, model, real int) int {
	if model == real || k <= 3 {
		if k > real {
			return real
		}
		return k
	}
	return real - (model - k)
}

// damage applies the corruption class to a copy of the good file.
// other: for "otherPass" the same content written with another passphrase, for "otherId" another id's file.
func damage(file []byte, c fcase, l, blocks int, rnd *rand.Rand, other []byte) ([]byte, string, error) {
	f := append([]byte{}, file...)
	flip := func(off int) string {
		bit := uint(rnd.Intn(8))
		f[off] ^= 1 << bit
		return fmt.Sprintf("bit %d of byte %d flipped", bit, off)
	}
	at := func(i int) int { return realBlock(c.At[i], c.Blocks, blocks) }
	switch c.Cls {
	case "cutHeader":
		n := rnd.Intn(hdrLen)
		return f[:n], fmt.Sprintf("truncated to %d bytes (inside the %d byte header)", n, hdrLen), nil
	case "cutNonce":
		n := hdrLen + rnd.Intn(nonceLen)
		return f[:n], fmt.Sprintf("truncated to %d bytes (inside the nonce)", n), nil
	case "cutHeaderNonce":
		return f[:hdrLen+nonceLen], fmt.Sprintf("truncated to %d bytes (header and nonce, no block)", hdrLen+nonceLen), nil
	case "cutBlockBoundary":
		_, e := blockSpan(l, at(0))
		return f[:e], fmt.Sprintf("truncated to %d bytes (after block %d of %d)", e, at(0), blocks), nil
	case "cutMidBlock":
		s, e := blockSpan(l, at(0))
		if e-tagLen-s < 2 {
			// a block with one byte of ciphertext: cut right after it (the whole tag is lost)
			return f[:e-tagLen], fmt.Sprintf("truncated to %d bytes (block %d without its tag)", e-tagLen, at(0)), nil
		}
		n := s + 1 + rnd.Intn(e-tagLen-s-1)
		return f[:n], fmt.Sprintf("truncated to %d bytes (inside the ciphertext of block %d of %d)", n, at(0), blocks), nil
	case "cutLastTag":
		n := len(f) - 1 - rnd.Intn(tagLen-1)
		return f[:n], fmt.Sprintf("truncated to %d of %d bytes (inside the last authentication tag)", n, len(f)), nil
	case "flipHeader":
		return f, flip(rnd.Intn(hdrLen)) + " (header)", nil
	case "flipNonce":
		return f, flip(hdrLen+rnd.Intn(nonceLen)) + " (nonce)", nil
	case "flipCipher":
		s, e := blockSpan(l, at(0))
		return f, flip(s+rnd.Intn(e-tagLen-s)) + fmt.Sprintf(" (ciphertext of block %d)", at(0)), nil
	case "flipTag":
		_, e := blockSpan(l, at(0))
		return f, flip(e-tagLen+rnd.Intn(tagLen)) + fmt.Sprintf(" (tag of block %d)", at(0)), nil
	case "swapBlocks":
		i, j := at(0), at(1)
		if i == j {
			return nil, "", fmt.Errorf("swap of block %d with itself", i)
		}
		si, ei := blockSpan(l, i)
		sj, ej := blockSpan(l, j)
		var out []byte
		out = append(out, f[:si]...)
		out = append(out, f[sj:ej]...)
		out = append(out, f[ei:sj]...)
		out = append(out, f[si:ei]...)
		out = append(out, f[ej:]...)
		return out, fmt.Sprintf("blocks %d and %d of %d exchanged", i, j, blocks), nil
	case "otherPass":
		return other, "file written by a store with another passphrase (same id, same content)", nil
	case "otherId":
		return other, "file of another id (other content, same store) put in its place", nil
	}
	return nil, "", fmt.Errorf("unknown corruption class %q", c.Cls)
}

// getOutcome calls Get on the real store and classifies the result against the original content.
func getOutcome(st store.Store, id imap.InternalMessageID, orig []byte) (outcome, detail string) {
	var got []byte
	var err error
	func() {
		defer func() {
			if p := recover(); p != nil {
				outcome, detail = "panic", fmt.Sprintf("Get panicked: %v\n%s", p, debug.Stack())
			}
		}()
		got, err = st.Get(id)
	}()
	if outcome == "panic" {
		return
	}
	switch {
	case err != nil:
		kind := "error"
		if errors.Is(err, fs.ErrNotExist) {
			kind = "notfound"
		}
		return kind, err.Error()
	case bytes.Equal(got, orig):
		return "same", fmt.Sprintf("the %d stored bytes", len(got))
	case len(got) == 0:
		return "other", fmt.Sprintf("no error and 0 bytes (stored: %d bytes)", len(orig))
	case len(got) < len(orig) && bytes.Equal(got, orig[:len(got)]):
		return "other", fmt.Sprintf("no error and only the first %d of the %d stored bytes", len(got), len(orig))
	default:
		same := 0
		for same < len(got) && same < len(orig) && got[same] == orig[same] {
			same++
		}
		return "other", fmt.Sprintf("no error and %d bytes that are not the %d stored ones (first difference at offset %d)", len(got), len(orig), same)
	}
}

// corruptor runs corruption cases; good files are built once per (class, variant).
type corruptor struct {
	seed  int64
	multi int
	cache map[string]*goodEntry
}

type goodEntry struct {
	c               *content
	file, otherPass []byte
	otherID         []byte
	l, blocks       int
}

func (k *corruptor) entry(class, variant string) (*goodEntry, error) {
	key := class + "/" + variant
	if e, ok := k.cache[key]; ok {
		return e, nil
	}
	c, err := build(class, variant, k.seed, k.multi)
	if err != nil {
		return nil, err
	}
	e := &goodEntry{c: c}
	if e.file, err = goodFile(c, idA, "pass-one"); err != nil {
		return nil, err
	}
	var ok bool
	e.l, e.blocks, ok = fileBlocks(len(e.file))
	if !ok || e.l != c.L {
		return nil, fmt.Errorf("%s: file of %d bytes does not hold a %d byte stream", key, len(e.file), c.L)
	}
	if want, fixed := modelBlocks[class]; fixed && want != e.blocks {
		return nil, fmt.Errorf("%s: real file has %d blocks, the class has %d in GluonStore.tla", key, e.blocks, want)
	}
	if class == "multi" && e.blocks < 6 {
		return nil, fmt.Errorf("%s: only %d blocks", key, e.blocks)
	}
	if e.otherPass, err = goodFile(c, idA, "pass-two"); err != nil {
		return nil, err
	}
	oc := "one"
	if class == "one" {
		oc = "Bm1"
	}
	o, err := build(oc, "rand", k.seed+17, k.multi)
	if err != nil {
		return nil, err
	}
	if e.otherID, err = goodFile(o, idB, "pass-one"); err != nil {
		return nil, err
	}
	if k.cache == nil {
		k.cache = map[string]*goodEntry{}
	}
	k.cache[key] = e
	return e, nil
}

type cresult struct {
	Outcome, Detail, What string
	FileLen, Blocks       int
}

// run executes one case on one variant; rep selects the seeded offset.
func (k *corruptor) run(c fcase, variant string, rep int) (*cresult, error) {
	e, err := k.entry(c.C, variant)
	if err != nil {
		return nil, err
	}
	rnd := rand.New(rand.NewSource(k.seed*7907 + int64(rep)*104729 + int64(len(c.Cls))*31 + int64(c.At[0])*7 + int64(c.At[1])))
	other := e.otherPass
	if c.Cls == "otherId" {
		other = e.otherID
	}
	bad, what, err := damage(e.file, c, e.l, e.blocks, rnd, other)
	if err != nil {
		return nil, err
	}
	dir, err := os.MkdirTemp("", "c09-bad-")
	if err != nil {
		return nil, err
	}
	defer os.RemoveAll(dir)
	disk, err := store.NewOnDiskStore(dir, []byte("pass-one"))
	if err != nil {
		return nil, err
	}
	if err := os.WriteFile(filepath.Join(dir, idA.String()), bad, 0o600); err != nil {
		return nil, err
	}
	st := store.NewWriteControlledStore(disk)
	out, detail := getOutcome(st, idA, e.c.Data)
	return &cresult{Outcome: out, Detail: detail, What: what, FileLen: len(bad), Blocks: e.blocks}, nil
}
