package c09

import (
	"bytes"
	"crypto/sha256"
	"encoding/json"
	"errors"
	"fmt"
	"io"
	"io/fs"
	"os"
	"path/filepath"
	"regexp"
	"runtime"
	"sort"
	"strconv"
	"sync"
	"sync/atomic"
	"time"

	"github.com/ProtonMail/gluon/imap"
	"github.com/ProtonMail/gluon/store"
	"github.com/ProtonMail/gluon/verif/pkg/ev"
	"github.com/ProtonMail/gluon/verif/pkg/tlc"
)

func sum(b []byte) [32]byte { return sha256.Sum256(b) }

// event is one line of trace.ndjson (see GluonStoreTrace.tla).
type event struct {
	stamp int64
	E     string `json:"e"`
	P     string `json:"p,omitempty"`
	Op    string `json:"op,omitempty"`
	ID    string `json:"id,omitempty"`
	C     string `json:"c"`
	St    string `json:"st,omitempty"`
	Val   string `json:"val"`
	// Ids: the reply of List (abstract ids; an id nobody stores appears under its own text)
	Ids []string `json:"ids"`
}

// history is one recorded round.
type history struct {
	Stack  string  `json:"stack"` // "disk" | "mem"
	Round  int     `json:"round"`
	Events []event `json:"events"`
	Note   string  `json:"note,omitempty"`
}

// recorder collects events of one round; stamps come from one atomic counter, so their order is an
// order in which the stamped instants really happened.
type recorder struct {
	seq   int64
	procs sync.Map // goroutine id -> *procLog
}

type procLog struct {
	name   string
	events []event
}

func goid() int64 {
	var buf [64]byte
	n := runtime.Stack(buf[:], false)
	// "goroutine 123 [running]:"
	f := bytes.Fields(buf[:n])
	id, _ := strconv.ParseInt(string(f[1]), 10, 64)
	return id
}

func (r *recorder) log(p *procLog, e event) {
	if p == nil {
		return // a call of a noise goroutine: not part of the history
	}
	e.stamp = atomic.AddInt64(&r.seq, 1)
	e.P = p.name
	if e.Ids == nil {
		e.Ids = []string{}
	}
	p.events = append(p.events, e)
}

func (r *recorder) me() *procLog {
	v, _ := r.procs.Load(goid())
	p, _ := v.(*procLog)
	return p
}

// tapStore passes every call on to the wrapped store and records when the call is inside it, i.e.
// behind the per-id lock of the WriteControlledStore above it.
type tapStore struct {
	inner store.Store
	rec   *recorder
}

func (t *tapStore) Get(id imap.InternalMessageID) ([]byte, error) {
	p := t.rec.me()
	t.rec.log(p, event{E: "enter"})
	b, err := t.inner.Get(id)
	t.rec.log(p, event{E: "exit"})
	return b, err
}

func (t *tapStore) Set(id imap.InternalMessageID, r io.Reader) error {
	p := t.rec.me()
	t.rec.log(p, event{E: "enter"})
	err := t.inner.Set(id, r)
	t.rec.log(p, event{E: "exit"})
	return err
}

func (t *tapStore) Delete(ids ...imap.InternalMessageID) error {
	p := t.rec.me()
	t.rec.log(p, event{E: "enter"})
	err := t.inner.Delete(ids...)
	t.rec.log(p, event{E: "exit"})
	return err
}

func (t *tapStore) Close() error                            { return t.inner.Close() }
func (t *tapStore) List() ([]imap.InternalMessageID, error) {
	p := t.rec.me()
	if p == nil { // not one of the recorded goroutines
		return t.inner.List()
	}
	t.rec.log(p, event{E: "enter"})
	ids, err := t.inner.List()
	t.rec.log(p, event{E: "exit"})
	return ids, err
}

// memStore is a trivially correct in-memory store (harness code). Under WriteControlledStore it lets
// the lock table be exercised at a far higher call rate than the disk allows.
type memStore struct {
	mu sync.RWMutex
	m  map[imap.InternalMessageID][]byte
}

func (m *memStore) Get(id imap.InternalMessageID) ([]byte, error) {
	m.mu.RLock()
	defer m.mu.RUnlock()
	b, ok := m.m[id]
	if !ok {
		return nil, fs.ErrNotExist
	}
	return b, nil // stored slices are never modified
}

func (m *memStore) Set(id imap.InternalMessageID, r io.Reader) error {
	b, err := io.ReadAll(r)
	if err != nil {
		return err
	}
	m.mu.Lock()
	defer m.mu.Unlock()
	m.m[id] = b
	return nil
}

func (m *memStore) Delete(ids ...imap.InternalMessageID) error {
	m.mu.Lock()
	defer m.mu.Unlock()
	for _, id := range ids {
		if _, ok := m.m[id]; !ok {
			return fs.ErrNotExist
		}
		delete(m.m, id)
	}
	return nil
}

func (m *memStore) Close() error { return nil }
func (m *memStore) List() ([]imap.InternalMessageID, error) {
	m.mu.RLock()
	defer m.mu.RUnlock()
	out := make([]imap.InternalMessageID, 0, len(m.m))
	for id := range m.m {
		out = append(out, id)
	}
	return out, nil
}

type roundCfg struct {
	Stack      string // "disk" | "mem"
	Procs, Ops int
	Ids        []string
	BigEvery   int // every n-th Set stores two blocks (disk only; 0 = never)
	Noise      int // goroutines that keep calling Get of ids outside the history (they contend for the lock table's mutex)
	GetPct     int // share of Get among the calls in percent (0 = 50); the rest is 3/5 Set, 2/5 Delete
}

// splitmix is a tiny seeded generator (rand.NewSource costs more than a whole call of the store).
type splitmix uint64

func (s *splitmix) next() uint64 {
	*s += 0x9e3779b97f4a7c15
	z := uint64(*s)
	z = (z ^ (z >> 30)) * 0xbf58476d1ce4e5b9
	z = (z ^ (z >> 27)) * 0x94d049bb133111eb
	return z ^ (z >> 31)
}
func (s *splitmix) intn(n int) int { return int(s.next() % uint64(n)) }

// valueBytes is the content behind a value name: distinguishable, and of a size that depends on the name.
func valueBytes(name string, big bool, g *splitmix) []byte {
	n := 16 + g.intn(3000)
	if big {
		n = blockB + 1000 + g.intn(50000)
	}
	b := make([]byte, n)
	for i := 0; i+8 <= n; i += 8 {
		x := g.next()
		for k := 0; k < 8; k++ {
			b[i+k] = byte(x >> (8 * k))
		}
	}
	copy(b, name+"|")
	return b
}

var noiseIDs = func() []imap.InternalMessageID {
	var out []imap.InternalMessageID
	for i := 0; i < 8; i++ {
		out = append(out, mustID(fmt.Sprintf("00000000-0000-4000-9000-00000000000%d", i)))
	}
	return out
}()

// runRound lets cfg.Procs goroutines issue cfg.Ops seeded calls each on one WriteControlledStore and
// returns the recording. suspicious is a hint for choosing which recordings TLC looks at first; it is
// never a verdict. foreign reports a Get that returned bytes nobody ever stored under that id.
func runRound(cfg roundCfg, round int, seed int64) (h *history, suspicious bool, foreign string, err error) {
	rec := &recorder{}
	var inner store.Store
	var dir string
	if cfg.Stack == "disk" {
		dir, err = os.MkdirTemp("", "c09-conc-")
		if err != nil {
			return nil, false, "", err
		}
		defer os.RemoveAll(dir)
		if inner, err = store.NewOnDiskStore(dir, []byte("conc-pass")); err != nil {
			return nil, false, "", err
		}
	} else {
		inner = &memStore{m: map[imap.InternalMessageID][]byte{}}
	}
	w := store.NewWriteControlledStore(&tapStore{inner: inner, rec: rec})

	type valueKey struct{ id, sum string }
	var vmu sync.Mutex
	values := map[[32]byte]string{} // bytes -> value name
	storedAt := map[string]bool{}   // id + "/" + value name
	logs := make([]*procLog, cfg.Procs)
	start := make(chan struct{})
	var wg sync.WaitGroup
	for g := 0; g < cfg.Procs; g++ {
		logs[g] = &procLog{name: fmt.Sprintf("g%d", g+1)}
		wg.Add(1)
		go func(g int) {
			defer wg.Done()
			p := logs[g]
			rec.procs.Store(goid(), p)
			gen := splitmix(uint64(seed)*1000003 + uint64(round)*131 + uint64(g)*7919)
			rnd := &gen
			// everything a call needs is prepared before the start signal
			type call struct {
				op, id, c string
				data      []byte
			}
			calls := make([]call, cfg.Ops)
			sets := 0
			for k := range calls {
				id := cfg.Ids[rnd.intn(len(cfg.Ids))]
				getPct := cfg.GetPct
				if getPct == 0 {
					getPct = 50
				}
				switch x := rnd.intn(100); {
				case x < 6:
					calls[k] = call{op: "List"}
				case x < getPct:
					calls[k] = call{op: "Get", id: id}
				case x < getPct+(100-getPct)*3/5:
					sets++
					name := fmt.Sprintf("%s.%d", p.name, k)
					big := cfg.BigEvery > 0 && sets%cfg.BigEvery == 0
					data := valueBytes(name, big, rnd)
					vmu.Lock()
					values[sum(data)] = name
					storedAt[id+"/"+name] = true
					vmu.Unlock()
					calls[k] = call{op: "Set", id: id, c: name, data: data}
				default:
					calls[k] = call{op: "Delete", id: id}
				}
			}
			<-start
			for _, c := range calls {
				real := absIDs[c.id]
				if c.op == "List" {
					c.id = "list-of-" + p.name // no id: the per-id exclusion does not concern it
				}
				rec.log(p, event{E: "start", Op: c.op, ID: c.id, C: c.c})
				switch c.op {
				case "Get":
					b, e := w.Get(real)
					switch {
					case e == nil:
						vmu.Lock()
						name, ok := values[sum(b)]
						vmu.Unlock()
						if !ok {
							name = fmt.Sprintf("other(%d bytes)", len(b))
						}
						rec.log(p, event{E: "end", St: "ok", Val: name})
					case errors.Is(e, fs.ErrNotExist):
						rec.log(p, event{E: "end", St: "notfound"})
					default:
						rec.log(p, event{E: "end", St: "error", Val: "error(" + e.Error() + ")"})
					}
				case "Set":
					if e := w.Set(real, bytes.NewReader(c.data)); e != nil {
						rec.log(p, event{E: "end", St: "error", Val: "error(" + e.Error() + ")"})
					} else {
						rec.log(p, event{E: "end", St: "ok"})
					}
				case "List":
					got, e := w.List()
					if e != nil {
						rec.log(p, event{E: "end", St: "error", Val: "error(" + e.Error() + ")", Ids: []string{}})
						break
					}
					names := []string{}
					for _, g := range got {
						name := "foreign:" + g.String()
						for a, r := range absIDs {
							if r == g {
								name = a
							}
						}
						for _, nz := range noiseIDs {
							if nz == g {
								name = ""
							}
						}
						if name != "" {
							names = append(names, name)
						}
					}
					sort.Strings(names)
					rec.log(p, event{E: "end", St: "ok", Ids: names})
				case "Delete":
					if e := w.Delete(real); e != nil {
						rec.log(p, event{E: "end", St: "error"})
					} else {
						rec.log(p, event{E: "end", St: "ok"})
					}
				}
			}
		}(g)
	}
	var stop int32
	var nwg sync.WaitGroup
	for n := 0; n < cfg.Noise; n++ {
		nwg.Add(1)
		go func(n int) {
			defer nwg.Done()
			id := noiseIDs[n%len(noiseIDs)]
			<-start
			for atomic.LoadInt32(&stop) == 0 {
				_, _ = w.Get(id)
			}
		}(n)
	}
	close(start)
	wg.Wait()
	atomic.StoreInt32(&stop, 1)
	nwg.Wait()

	h = &history{Stack: cfg.Stack, Round: round}
	for _, p := range logs {
		h.Events = append(h.Events, p.events...)
	}
	sort.Slice(h.Events, func(i, j int) bool { return h.Events[i].stamp < h.Events[j].stamp })

	// hints and the one direct rule
	type in struct{ op, id string }
	inside := map[string]in{}
	cur := map[string]in{}
	for _, e := range h.Events {
		switch e.E {
		case "start":
			cur[e.P] = in{e.Op, e.ID}
		case "enter":
			me := cur[e.P]
			for _, o := range inside {
				if o.id == me.id && (o.op != "Get" || me.op != "Get") {
					suspicious = true
				}
			}
			inside[e.P] = me
		case "exit":
			delete(inside, e.P)
		case "end":
			me := cur[e.P]
			if me.op == "Get" && e.St == "ok" && !storedAt[me.id+"/"+e.Val] {
				foreign = fmt.Sprintf("%s: Get(%s) returned %s", e.P, me.id, e.Val)
				suspicious = true
			}
			if me.op == "Get" && e.St == "error" || me.op == "Set" && e.St != "ok" {
				suspicious = true
			}
		}
	}
	return h, suspicious, foreign, nil
}

func ndjson(hs []*history) ([]byte, []int) {
	var b bytes.Buffer
	var firstLine []int // 1-based index of each history's reset line
	line := 0
	enc := json.NewEncoder(&b)
	for _, h := range hs {
		line++
		firstLine = append(firstLine, line)
		_ = enc.Encode(event{E: "reset", Ids: []string{}})
		for _, e := range h.Events {
			line++
			if e.Ids == nil { // a history read back from a replay file
				e.Ids = []string{}
			}
			_ = enc.Encode(e)
		}
	}
	return b.Bytes(), firstLine
}

type traceVerdict struct {
	Accepted  bool
	Exclusion bool // TraceExclusion violated on the observed events
	At        int  // 1-based line of trace.ndjson: first event no interleaving could consume / last consumed on an invariant violation
	States    int64
	Wall      time.Duration
	Problem   string // tool problem: not a verdict
}

var reL = regexp.MustCompile(`(?m)^/\\ l = (\d+)`)

// validate asks TLC whether the concatenated histories are behaviours of GluonStoreTrace.
func validate(hs []*history) traceVerdict {
	data, _ := ndjson(hs)
	var hw, ln int64 = -1, -1
	res, err := tlc.Run(tlc.Options{
		SpecDir: filepath.Join(ev.Root(), "spec"), Module: "GluonStoreTrace",
		Cfg:     filepath.Join(ev.Root(), "spec", "cfg", "GluonStoreTrace.cfg"),
		Workers: 1, Deque: true, Timeout: 10 * time.Minute, KeepOutput: true, HeapGB: 4,
		ExtraFiles: map[string][]byte{"trace.ndjson": data},
		OnJSON: func(raw []byte) {
			var x struct {
				Highwater *int64 `json:"highwater"`
				Len       int64  `json:"len"`
			}
			if json.Unmarshal(raw, &x) == nil && x.Highwater != nil {
				hw, ln = *x.Highwater, x.Len
			}
		},
	})
	if err != nil {
		return traceVerdict{Problem: err.Error()}
	}
	v := traceVerdict{States: res.Distinct, Wall: res.Wall}
	switch {
	case res.TimedOut:
		v.Problem = "TLC timed out on the trace"
	case res.Violated == "TraceExclusion":
		v.Exclusion = true
		if m := reL.FindAllStringSubmatch(res.Output, -1); len(m) > 0 {
			n, _ := strconv.Atoi(m[len(m)-1][1])
			v.At = n - 1
		}
	case res.Violated != "":
		v.Problem = "unexpected violation of " + res.Violated + "\n" + tail(res.Output)
	case hw < 0:
		v.Problem = "TLC did not report the high-water mark: " + res.Error + "\n" + tail(res.Output)
	case hw == ln+1:
		if res.Error != "" {
			v.Problem = "TLC error on an accepted trace: " + res.Error
		}
		v.Accepted = true
	default:
		v.At = int(hw)
	}
	return v
}

func tail(s string) string {
	if len(s) > 3000 {
		return s[len(s)-3000:]
	}
	return s
}
