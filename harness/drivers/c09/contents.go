package c09

import (
	"bytes"
	"crypto/sha256"
	"encoding/binary"
	"fmt"
	"math/rand"
	"os"
	"path/filepath"

	"github.com/ProtonMail/gluon/imap"
	"github.com/ProtonMail/gluon/store"
)

// Layout of a store file as store/disk.go writes it. The numbers are checked against real
// files (verifyLayout): if the store changes its format the check stops with a machinery problem.
const (
	blockB    = 64 * 4096 // bytes of the compressed stream per encrypted block
	hdrLen    = 15        // "GLUON-CACHE" + uint32 version
	nonceLen  = 12
	tagLen    = 16
	lz4Unit   = 64 * 1024 // the LZ4 frame is made of data blocks of 64 KiB of input
	frameHdr  = 7         // magic + FLG + BD + HC
	frameEnd  = 4         // end mark
	rawMarker = 0x80000000
)

// content is one concrete instance of an abstract content class.
type content struct {
	Class   string
	Variant string
	Data    []byte
	L       int // length of the compressed stream (measured from the real file when known, else from lz4)
	sum     [32]byte
}

func (c *content) name() string { return c.Class + "/" + c.Variant }

// prober measures contents with the real store: the length of the compressed stream ("frame") of a
// content follows from the size of the file onDiskStore.Set wrote. Nothing here re-implements the
// compression or the encryption.
type prober struct {
	dir string
	st  store.Store
	id  imap.InternalMessageID
}

var probe *prober

func newProber() (*prober, error) {
	dir, err := os.MkdirTemp("", "c09-probe-")
	if err != nil {
		return nil, err
	}
	st, err := store.NewOnDiskStore(dir, []byte("probe"))
	if err != nil {
		return nil, err
	}
	return &prober{dir: dir, st: st, id: imap.NewInternalMessageID()}, nil
}

func (p *prober) close() { os.RemoveAll(p.dir) }

// frameLen is the length of the compressed stream ("frame") the store produces for b, derived from
// the size of the file it wrote.
func frameLen(b []byte) int {
	p := probe
	// always a new file: the measurement must not depend on how the store overwrites
	_ = os.Remove(filepath.Join(p.dir, p.id.String()))
	if err := p.st.Set(p.id, bytes.NewReader(b)); err != nil {
		panic(fmt.Sprintf("probe store: Set: %v", err))
	}
	fi, err := os.Stat(filepath.Join(p.dir, p.id.String()))
	if err != nil {
		panic(fmt.Sprintf("probe store: %v", err))
	}
	l, _, ok := fileBlocks(int(fi.Size()))
	if !ok {
		panic("probe store: unexpected file size")
	}
	return l
}

// unitCost is what one 64 KiB unit of input adds to the frame (4-byte block header + data).
// An input whose length is a multiple of 64 KiB (0 included) ends with one empty data block
// (4 bytes) before the end mark: that is how lz4.Writer.ReadFrom handles the final empty read.
func unitCost(u []byte) int { return frameLen(u) - frameHdr - frameEnd - emptyBlock(len(u)) }

func emptyBlock(n int) int {
	if n%lz4Unit == 0 {
		return 4
	}
	return 0
}

// unitGen produces the i-th 64 KiB unit of a variant's body.
type unitGen func(i int) []byte

func randBytes(r *rand.Rand, n int) []byte {
	b := make([]byte, n)
	r.Read(b)
	return b
}

func generators(seed int64) map[string]unitGen {
	words := make([][]byte, 512)
	wr := rand.New(rand.NewSource(seed ^ 0x7e57))
	for i := range words {
		words[i] = randBytes(wr, 3+wr.Intn(9))
	}
	return map[string]unitGen{
		// incompressible
		"rand": func(i int) []byte { return randBytes(rand.New(rand.NewSource(seed*1000003+int64(i))), lz4Unit) },
		// moderately compressible: words of a small dictionary
		"text": func(i int) []byte {
			r := rand.New(rand.NewSource(seed*1000033 + int64(i)))
			b := make([]byte, 0, lz4Unit+16)
			for len(b) < lz4Unit {
				b = append(b, words[r.Intn(len(words))]...)
				b = append(b, ' ')
			}
			return b[:lz4Unit]
		},
		// alternating incompressible and constant units
		"mixed": func(i int) []byte {
			if i%2 == 0 {
				return randBytes(rand.New(rand.NewSource(seed*1000037+int64(i))), lz4Unit)
			}
			return bytes.Repeat([]byte{byte(i)}, lz4Unit)
		},
		// highly compressible (about 250:1)
		"zeros": func(i int) []byte { return make([]byte, lz4Unit) },
	}
}

// withFrameLen builds a content of the given variant whose LZ4 frame is exactly target bytes long:
// k whole body units of the variant, then an incompressible tail of T bytes that starts a new LZ4
// unit (it costs T + 4 per started unit, so every tail byte adds exactly one byte to the frame).
func withFrameLen(variant string, gen unitGen, target int, seed int64) ([]byte, error) {
	zcost := -1
	cost := func(i int) int {
		if variant == "zeros" {
			if zcost < 0 {
				zcost = unitCost(gen(i))
			}
			return zcost
		}
		return unitCost(gen(i))
	}
	var costs []int
	l := frameHdr + frameEnd
	for k := 0; ; k++ {
		c := cost(k)
		if l+c > target-5 {
			break
		}
		costs = append(costs, c)
		l += c
	}
	for k := len(costs); k >= 0 && k >= len(costs)-3; k-- {
		l := frameHdr + frameEnd
		for _, c := range costs[:k] {
			l += c
		}
		rest := target - l
		tail := -1
		for u := 1; u <= 8; u++ {
			t := rest - 4*u
			if t >= 1 && t%lz4Unit == 0 {
				t -= 4 // the empty block that follows a tail of whole units
			}
			if t >= 1 && t%lz4Unit != 0 && (t+lz4Unit-1)/lz4Unit == u {
				tail = t
				break
			}
		}
		if tail < 0 {
			continue
		}
		var body bytes.Buffer
		for i := 0; i < k; i++ {
			body.Write(gen(i))
		}
		body.Write(randBytes(rand.New(rand.NewSource(seed^int64(target)*7919)), tail))
		if frameLen(body.Bytes()) == target {
			return body.Bytes(), nil
		}
	}
	return nil, fmt.Errorf("no %s content with a %d byte frame found", variant, target)
}

// tuneUnit searches a 64 KiB unit that adds exactly need bytes to the frame: r incompressible
// bytes, a constant run, s incompressible bytes.
func tuneUnit(need int, r *rand.Rand) []byte {
	if need == lz4Unit+4 {
		return randBytes(r, lz4Unit)
	}
	noise, noise2 := randBytes(r, lz4Unit), randBytes(r, 128)
	mk := func(n, s int) []byte {
		u := append([]byte{}, noise[:n]...)
		u = append(u, bytes.Repeat([]byte{0x5a}, lz4Unit-n-s)...)
		return append(u, noise2[:s]...)
	}
	for s := 0; s < 100; s++ {
		lo, hi := 0, lz4Unit-s-16
		for lo < hi {
			mid := (lo + hi) / 2
			c := unitCost(mk(mid, s))
			if c == need {
				return mk(mid, s)
			}
			if c < need {
				lo = mid + 1
			} else {
				hi = mid
			}
		}
		for d := -3; d <= 3; d++ {
			if n := lo + d; n >= 0 && n <= lz4Unit-s-16 && unitCost(mk(n, s)) == need {
				return mk(n, s)
			}
		}
	}
	return nil
}

// alignedAtB builds a content whose frame has an LZ4 data block ending exactly at offset blockB and
// one more incompressible unit after it (class "BAlign"): k body units of the variant, incompressible
// units, one tuned unit so that 7 + sum(cost) = blockB, then the extra unit.
func alignedAtB(variant string, gen unitGen, seed int64) ([]byte, error) {
	r := rand.New(rand.NewSource(seed ^ 0xa11a))
	var data bytes.Buffer
	off := frameHdr
	zcost := -1
	for k := 0; ; k++ {
		var c int
		if variant == "zeros" && zcost >= 0 {
			c = zcost
		} else {
			c = unitCost(gen(k))
			zcost = c
		}
		if off+c > blockB-2000 {
			break
		}
		data.Write(gen(k))
		off += c
	}
	for blockB-off > lz4Unit+4+2000 {
		data.Write(randBytes(r, lz4Unit))
		off += lz4Unit + 4
	}
	need := blockB - off
	if need > lz4Unit+4 {
		// split: a tuned unit of 2000.. then the rest must be a raw unit
		first := need - (lz4Unit + 4)
		u := tuneUnit(first, r)
		if u == nil {
			return nil, fmt.Errorf("no unit with cost %d found", first)
		}
		data.Write(u)
		need = lz4Unit + 4
	}
	u := tuneUnit(need, r)
	if u == nil {
		return nil, fmt.Errorf("no unit with cost %d found", need)
	}
	data.Write(u)
	// whole units so far: their frame is 7 + sum(cost) + empty block + end mark = blockB + 8 exactly
	// when the last data block ends at blockB
	if got := frameLen(data.Bytes()); got != blockB+8 {
		return nil, fmt.Errorf("aligned content: frame of the first units has %d bytes, want %d", got, blockB+8)
	}
	data.Write(randBytes(r, lz4Unit))
	if l := frameLen(data.Bytes()); l <= blockB || l > 2*blockB {
		return nil, fmt.Errorf("aligned content: frame of %d bytes", l)
	}
	return data.Bytes(), nil
}

// swapCrafted builds an incompressible content (every LZ4 data block stored raw: 4-byte header
// 0x80010000 + 64 KiB) in which bytes that look like such headers are planted so that the frame stays
// well formed when the 2nd and 3rd block of blockB bytes of the frame change places. The store seals
// every block with the same nonce and no position, so nothing but the decompressor can notice the
// exchange. Whether the store really stores these units raw is checked through the frame length.
func swapCrafted(seed int64, units int) ([]byte, error) {
	r := rand.New(rand.NewSource(seed ^ 0x5a9))
	const tailLen = 1000
	data := randBytes(r, units*lz4Unit+tailLen)
	rawLen := frameHdr + units*(lz4Unit+4) + 4 + tailLen + frameEnd
	if got := frameLen(data); got != rawLen {
		return nil, fmt.Errorf("random units are not stored raw (frame %d, want %d)", got, rawLen)
	}
	if rawLen < 3*blockB {
		return nil, fmt.Errorf("frame too short")
	}
	// position in the frame -> offset in data, or -1 for the frame header and block headers
	dataOff := func(p int) int {
		rel := p - frameHdr
		if rel < 0 || rel%(lz4Unit+4) < 4 {
			return -1
		}
		return rel/(lz4Unit+4)*lz4Unit + rel%(lz4Unit+4) - 4
	}
	toOrig := func(p int) int { // position in the exchanged frame -> position in the original frame
		switch {
		case p >= blockB && p < 2*blockB:
			return p + blockB
		case p >= 2*blockB && p < 3*blockB:
			return p - blockB
		}
		return p
	}
	fake := make([]byte, 4)
	binary.LittleEndian.PutUint32(fake, rawMarker|lz4Unit)
	// walk the exchanged frame the way the decompressor will: a header every 4 + 64 KiB bytes
	pos := frameHdr
	for ; pos+4 <= 3*blockB; pos += 4 + lz4Unit {
		for i := 0; i < 4; i++ {
			o := toOrig(pos + i)
			if o == pos+i {
				continue // outside the exchanged blocks: the real header is there
			}
			d := dataOff(o)
			if d < 0 {
				return nil, fmt.Errorf("planted header would overlap a real one")
			}
			data[d] = fake[i]
		}
	}
	if dataOff(pos) != -1 || dataOff(pos+3) != -1 {
		return nil, fmt.Errorf("the walk does not meet a real header behind the exchanged blocks")
	}
	if got := frameLen(data); got != rawLen {
		return nil, fmt.Errorf("crafted units are not stored raw (frame %d, want %d)", got, rawLen)
	}
	return data, nil
}

// classTarget: frame length of the classes that are defined by it (0 = defined otherwise).
func classTarget(class string) int {
	switch class {
	case "Bm1":
		return blockB - 1
	case "B":
		return blockB
	case "Bp1":
		return blockB + 1
	case "Bp4":
		return blockB + 4
	case "2B":
		return 2 * blockB
	case "2Bp1":
		return 2*blockB + 1
	}
	return 0
}

// modelBlocks is BlockCount of GluonStore.tla for the classes whose real block count must equal it.
var modelBlocks = map[string]int{"empty": 1, "one": 1, "Bm1": 1, "B": 1, "Bp1": 2, "Bp4": 2, "BAlign": 2, "2B": 2, "2Bp1": 3, "4Bp": 5}

// build makes the instance (class, variant) for this seed.
func build(class, variant string, seed int64, multiBytes int) (*content, error) {
	gens := generators(seed)
	gen := gens[variant]
	var data []byte
	var err error
	switch {
	case class == "empty":
		data = []byte{}
	case class == "one":
		data = []byte{byte(seed) ^ variant[0]}
	case variant == "rawhdr":
		units := 16
		if class == "multi" {
			units = multiBytes / lz4Unit
		}
		data, err = swapCrafted(seed, units)
	case classTarget(class) > 0:
		data, err = withFrameLen(variant, gen, classTarget(class), seed)
	case class == "BAlign":
		data, err = alignedAtB(variant, gen, seed)
	case class == "4Bp":
		// a little more than four blocks, seeded; from +5 on, so that the fifth block never holds
		// just the end mark (that situation is class "Bp4")
		data, err = withFrameLen(variant, gen, 4*blockB+5+int(seed%4000), seed)
	case class == "multi":
		var b bytes.Buffer
		for i := 0; b.Len() < multiBytes; i++ {
			b.Write(gen(i))
		}
		b.Write(randBytes(rand.New(rand.NewSource(seed)), 1+int(seed%777)))
		data = b.Bytes()
	default:
		err = fmt.Errorf("unknown content class %q", class)
	}
	if err != nil {
		return nil, fmt.Errorf("%s/%s: %w", class, variant, err)
	}
	c := &content{Class: class, Variant: variant, Data: data, L: frameLen(data)}
	c.sum = sha256.Sum256(data)
	return c, nil
}

// fileBlocks derives (frame length, number of blocks) from the size of a real store file.
func fileBlocks(size int) (l, blocks int, ok bool) {
	p := size - hdrLen - nonceLen
	if p < 0 {
		return 0, 0, false
	}
	blocks = (p + blockB + tagLen - 1) / (blockB + tagLen)
	l = p - blocks*tagLen
	return l, blocks, l >= 0
}

// blockSpan returns [start, end) of block i (1-based) of a file with frame length l.
func blockSpan(l, i int) (int, int) {
	start := hdrLen + nonceLen + (i-1)*(blockB+tagLen)
	n := blockB
	if rem := l - (i-1)*blockB; rem < n {
		n = rem
	}
	return start, start + n + tagLen
}
