package c09

import (
	"bytes"
	"encoding/json"
	"errors"
	"fmt"
	"io/fs"
	"math/rand"
	"os"
	"sort"
	"strings"

	"github.com/ProtonMail/gluon/imap"
	"github.com/ProtonMail/gluon/store"
)

// kvStep is one transition of the KV layer as PrintStep printed it.
type kvStep struct {
	Pre  map[string]string `json:"pre"`
	Post map[string]string `json:"post"`
	Act  struct {
		Op    string   `json:"op"`
		Ids   []string `json:"ids"`
		C     string   `json:"c"`
		Reply struct {
			St  string   `json:"st"`
			Val string   `json:"val"`
			Ids []string `json:"ids"`
		} `json:"reply"`
	} `json:"act"`
}

func stateKey(m map[string]string) string {
	ks := make([]string, 0, len(m))
	for k := range m {
		ks = append(ks, k)
	}
	sort.Strings(ks)
	var b strings.Builder
	for _, k := range ks {
		b.WriteString(k + "=" + m[k] + ";")
	}
	return b.String()
}

func (s *kvStep) sig() string {
	return fmt.Sprintf("%s|%s(%s,%s)", stateKey(s.Pre), s.Act.Op, strings.Join(s.Act.Ids, ","), s.Act.C)
}

// tour orders the wanted transitions into one walk from the initial state: take an uncovered
// transition of the current state if there is one (seeded choice), otherwise follow a shortest path
// (BFS over all transitions) to the nearest state that has one. want marks the transitions to cover.
func tour(steps []*kvStep, init string, want []bool, rnd *rand.Rand) ([]*kvStep, error) {
	out := map[string][]int{}
	for i, s := range steps {
		out[stateKey(s.Pre)] = append(out[stateKey(s.Pre)], i)
	}
	left := 0
	for _, w := range want {
		if w {
			left++
		}
	}
	covered := make([]bool, len(steps))
	cur := init
	var walk []*kvStep
	for left > 0 {
		var cand []int
		for _, i := range out[cur] {
			if want[i] && !covered[i] {
				cand = append(cand, i)
			}
		}
		if len(cand) > 0 {
			i := cand[rnd.Intn(len(cand))]
			covered[i] = true
			left--
			walk = append(walk, steps[i])
			cur = stateKey(steps[i].Post)
			continue
		}
		// BFS to the nearest state with an uncovered wanted transition
		prev := map[string]int{cur: -1}
		queue := []string{cur}
		target := ""
		for len(queue) > 0 && target == "" {
			n := queue[0]
			queue = queue[1:]
			for _, i := range out[n] {
				nx := stateKey(steps[i].Post)
				if _, seen := prev[nx]; seen {
					continue
				}
				prev[nx] = i
				for _, j := range out[nx] {
					if want[j] && !covered[j] {
						target = nx
						break
					}
				}
				if target != "" {
					break
				}
				queue = append(queue, nx)
			}
		}
		if target == "" {
			return nil, fmt.Errorf("%d transitions cannot be reached from %q", left, cur)
		}
		var path []int
		for n := target; prev[n] >= 0; n = stateKey(steps[prev[n]].Pre) {
			path = append(path, prev[n])
		}
		for k := len(path) - 1; k >= 0; k-- {
			i := path[k]
			if want[i] && !covered[i] {
				covered[i] = true
				left--
			}
			walk = append(walk, steps[i])
		}
		cur = target
	}
	return walk, nil
}

// kvRig is the real store under the tour: WriteControlledStore over an on-disk store, and the
// mapping between abstract ids / content classes and real ids / bytes.
type kvRig struct {
	dir      string
	st       *store.WriteControlledStore
	ids      map[string]imap.InternalMessageID
	back     map[string]string // real id string -> abstract id
	contents map[string]*content
	bySum    map[[32]byte]string
}

var absIDs = map[string]imap.InternalMessageID{"a": idA, "b": idB, "c": idC}

func newKVRig(contents map[string]*content, idNames []string, viaBuilder bool) (*kvRig, error) {
	dir, err := os.MkdirTemp("", "c09-kv-")
	if err != nil {
		return nil, err
	}
	var disk store.Store
	if viaBuilder {
		disk, err = (&store.OnDiskStoreBuilder{}).New(dir, "user", []byte("tour-pass"))
	} else {
		disk, err = store.NewOnDiskStore(dir, []byte("tour-pass"))
	}
	if err != nil {
		return nil, err
	}
	r := &kvRig{dir: dir, st: store.NewWriteControlledStore(disk), ids: map[string]imap.InternalMessageID{},
		back: map[string]string{}, contents: contents, bySum: map[[32]byte]string{}}
	for _, n := range idNames {
		id, ok := absIDs[n]
		if !ok {
			return nil, fmt.Errorf("no real id for %q", n)
		}
		r.ids[n] = id
		r.back[id.String()] = n
	}
	for n, c := range contents {
		r.bySum[c.sum] = n
	}
	return r, nil
}

func (r *kvRig) close() { _ = r.st.Close(); os.RemoveAll(r.dir) }

// project maps what Get returned to the abstract value.
func (r *kvRig) project(b []byte, err error) string {
	if err != nil {
		if errors.Is(err, fs.ErrNotExist) {
			return "absent"
		}
		return "error(" + err.Error() + ")"
	}
	if n, ok := r.bySum[sum(b)]; ok {
		return n
	}
	for n, c := range r.contents {
		if len(b) < len(c.Data) && bytes.Equal(b, c.Data[:len(b)]) && len(b) > 0 {
			return fmt.Sprintf("other(%d bytes, a prefix of %s)", len(b), n)
		}
	}
	return fmt.Sprintf("other(%d bytes)", len(b))
}

// observe reads the whole state through the public API: List and Get of every id.
func (r *kvRig) observe() (map[string]string, []string, error) {
	kv := map[string]string{}
	for n, id := range r.ids {
		b, err := r.st.Get(id)
		kv[n] = r.project(b, err)
	}
	l, err := r.st.List()
	if err != nil {
		return kv, nil, err
	}
	var names []string
	for _, id := range l {
		if n, ok := r.back[id.String()]; ok {
			names = append(names, n)
		} else {
			names = append(names, "?"+id.String())
		}
	}
	sort.Strings(names)
	return kv, names, nil
}

func present(m map[string]string) []string {
	var out []string
	for k, v := range m {
		if v != "absent" {
			out = append(out, k)
		}
	}
	sort.Strings(out)
	return out
}

// exec performs the action of a step and returns the reply in the vocabulary of the spec.
func (r *kvRig) exec(s *kvStep) (st, val string, ids []string, err error) {
	switch s.Act.Op {
	case "Set", "SetUnchecked":
		c, ok := r.contents[s.Act.C]
		if !ok {
			return "", "", nil, fmt.Errorf("content class %q not instantiated", s.Act.C)
		}
		var e error
		if s.Act.Op == "Set" {
			e = r.st.Set(r.ids[s.Act.Ids[0]], bytes.NewReader(c.Data))
		} else {
			e = r.st.SetUnchecked(r.ids[s.Act.Ids[0]], bytes.NewReader(c.Data))
		}
		if e != nil {
			return "error(" + e.Error() + ")", "", nil, nil
		}
		return "ok", "", nil, nil
	case "Get":
		b, e := r.st.Get(r.ids[s.Act.Ids[0]])
		v := r.project(b, e)
		switch {
		case v == "absent":
			return "notfound", "", nil, nil
		case e != nil:
			return v, "", nil, nil
		}
		return "ok", v, nil, nil
	case "Delete":
		var real []imap.InternalMessageID
		for _, n := range s.Act.Ids {
			real = append(real, r.ids[n])
		}
		if e := r.st.Delete(real...); e != nil {
			return "error", "", nil, nil
		}
		return "ok", "", nil, nil
	case "List":
		l, e := r.st.List()
		if e != nil {
			return "error(" + e.Error() + ")", "", nil, nil
		}
		for _, id := range l {
			if n, ok := r.back[id.String()]; ok {
				ids = append(ids, n)
			} else {
				ids = append(ids, "?"+id.String())
			}
		}
		sort.Strings(ids)
		return "ok", "", ids, nil
	}
	return "", "", nil, fmt.Errorf("unknown action %q", s.Act.Op)
}

// tourReplay is stored with a violation: the walk up to and including the failing step.
type tourReplay struct {
	Kind     string            `json:"kind"` // "tour"
	Seed     int64             `json:"seed"`
	Variants map[string]string `json:"variants"`
	Multi    int               `json:"multi_bytes"`
	Steps    []*kvStep         `json:"steps"`
}

// mismatch describes the first difference between the expectation and the observation, "" if none.
func mismatch(s *kvStep, st, val string, ids []string, kv map[string]string, list []string) (kind, detail string) {
	sort.Strings(s.Act.Reply.Ids)
	if st != s.Act.Reply.St || val != s.Act.Reply.Val || (s.Act.Op == "List" && strings.Join(ids, ",") != strings.Join(s.Act.Reply.Ids, ",")) {
		return "reply", fmt.Sprintf("reply %s %q %v, the specification replies %s %q %v", st, val, ids, s.Act.Reply.St, s.Act.Reply.Val, s.Act.Reply.Ids)
	}
	for _, id := range sortedKeys(s.Post) {
		if kv[id] != s.Post[id] {
			touched := false
			for _, t := range s.Act.Ids {
				if t == id {
					touched = true
				}
			}
			k := "state-other-id"
			if touched {
				k = "state"
			}
			return k, fmt.Sprintf("afterwards Get(%s) yields %s, the specification holds %s", id, kv[id], s.Post[id])
		}
	}
	if want := present(s.Post); strings.Join(list, ",") != strings.Join(want, ",") {
		return "list", fmt.Sprintf("afterwards List yields %v, the stored ids are %v", list, want)
	}
	return "", ""
}

func sortedKeys(m map[string]string) []string {
	ks := make([]string, 0, len(m))
	for k := range m {
		ks = append(ks, k)
	}
	sort.Strings(ks)
	return ks
}

func stepText(s *kvStep) string {
	b, _ := json.Marshal(s.Act)
	return fmt.Sprintf("%s in state %s", b, stateKey(s.Pre))
}
