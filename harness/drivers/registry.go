// Package drivers holds the registry of per-property checks.
package drivers

import "github.com/ProtonMail/gluon/verif/pkg/ev"

// Check runs one property at one tier. replay is "" or the path of a stored failing case.
type Check func(run *ev.Run, tier string, replay string)

type Entry struct {
	ID    string
	Level string
	Fn    Check
}

var Registry = map[string]Entry{}

func Register(id, level string, fn Check) { Registry[id] = Entry{ID: id, Level: level, Fn: fn} }
