// Package drivers holds the registry of per-property checks.
package drivers

import "github.com/ProtonMail/gluon/verif/pkg/ev"

// Check runs one property at one tier. replay is "" or the path of a stored failing case.
type Check func(run *ev.Run, tier string, replay string)

type Entry struct {
	ID    string
	Level string
	Fn    Check
	// Shards: number of worker processes for the quick / thorough tier (0 or 1 = run in this process).
	ShardsQuick, ShardsThorough int
	// Prepare (optional) runs once in the parent before the shard processes start; what it writes into dir
	// is available to every shard through the VERIF_SHARED_DIR environment variable.
	Prepare func(tier, dir string) error
}

var Registry = map[string]Entry{}

func Register(id, level string, fn Check) { Registry[id] = Entry{ID: id, Level: level, Fn: fn} }

// RegisterSharded registers a check whose work is split over worker processes (ev.Shard tells each its part).
func RegisterSharded(id, level string, quick, thorough int, fn Check) {
	Registry[id] = Entry{ID: id, Level: level, Fn: fn, ShardsQuick: quick, ShardsThorough: thorough}
}

// SetPrepare attaches a Prepare step to a registered check.
func SetPrepare(id string, fn func(tier, dir string) error) {
	e := Registry[id]
	e.Prepare = fn
	Registry[id] = e
}
