// Package c16: message sets select exactly what GluonSeqSet.tla says, or the command is BAD.
// TLC enumerates (view size, mode, set) with the expected positions; every case is executed
// over the wire with FETCH, SEARCH, STORE, COPY, MOVE and UID EXPUNGE and the effect compared.
package c16

import (
	"encoding/json"
	"fmt"
	"math/rand"
	"os"
	"path/filepath"
	"sort"
	"strconv"
	"strings"
	"time"

	"github.com/ProtonMail/gluon/verif/drivers"
	"github.com/ProtonMail/gluon/verif/pkg/ev"
	"github.com/ProtonMail/gluon/verif/pkg/fixture"
	"github.com/ProtonMail/gluon/verif/pkg/tlc"
	"github.com/ProtonMail/gluon/verif/pkg/wire"
)

func init() { drivers.Register("C16", "model_checking", run) }

type num struct {
	K string `json:"k"`
	V int    `json:"v"`
}
type rng struct {
	A      num  `json:"a"`
	B      num  `json:"b"`
	Single bool `json:"single"`
}
type tcase struct {
	N    int    `json:"n"`
	Mode string `json:"mode"`
	Set  []rng  `json:"set"`
	Uids []int  `json:"uids"`
	Exp  struct {
		Res    string `json:"res"`
		Pos    []int  `json:"pos"`
		Judged bool   `json:"judged"`
	} `json:"exp"`
	Nested map[string]struct {
		Res    string `json:"res"`
		Pos    []int  `json:"pos"`
		Judged bool   `json:"judged"`
	} `json:"nested"`
}

var hugeText = map[int]string{
	1: "4294967297", 2: "4294967298", 3: "18446744073709551617",
	4: "4294967295", 5: "4294967296", 6: "18446744073709551616",
}

func (x num) text() string {
	switch x.K {
	case "star":
		return "*"
	case "huge":
		return hugeText[x.V]
	}
	return strconv.Itoa(x.V)
}

func (c *tcase) setText() string {
	var parts []string
	for _, r := range c.Set {
		if r.Single {
			parts = append(parts, r.A.text())
		} else {
			parts = append(parts, r.A.text()+":"+r.B.text())
		}
	}
	return strings.Join(parts, ",")
}

func (c *tcase) hasHuge() bool {
	for _, r := range c.Set {
		if r.A.K == "huge" || r.B.K == "huge" {
			return true
		}
	}
	return false
}

func (c *tcase) sig(cmd string) string {
	return fmt.Sprintf("%s %s n=%d set=%s", cmd, c.Mode, c.N, c.setText())
}

type drv struct {
	r      *ev.Run
	srv    *fixture.ChildServer
	c      *wire.Client // session holding the view selected
	aux    *wire.Client // auxiliary session (inspects destination mailboxes)
	cur    string       // currently selected mailbox of c
	seq    int
	rnd    *rand.Rand
	uidSeq []int
	rot    int
}

func lit(tag string) []byte {
	return []byte("From: a@b.c\r\nDate: Mon, 7 Feb 1994 21:52:25 -0800\r\nSubject: " + tag + "\r\n\r\nbody " + tag + "\r\n")
}

// buildView creates a mailbox whose messages have exactly the given UIDs and selects it.
func (d *drv) buildView(uids []int) (string, error) {
	d.seq++
	name := fmt.Sprintf("v%d", d.seq)
	if res := d.c.Cmd("CREATE " + name); res.Status != "OK" {
		return "", fmt.Errorf("CREATE: %+v", res)
	}
	max := 0
	want := map[int]bool{}
	for _, u := range uids {
		want[u] = true
		if u > max {
			max = u
		}
	}
	for u := 1; u <= max; u++ {
		if res := d.c.Append(name, "", lit(fmt.Sprintf("u%d", u))); res.Status != "OK" {
			return "", fmt.Errorf("APPEND: %+v", res)
		}
	}
	if res := d.c.Cmd("SELECT " + name); res.Status != "OK" {
		return "", fmt.Errorf("SELECT: %+v", res)
	}
	var del []string
	for u := 1; u <= max; u++ {
		if !want[u] {
			del = append(del, strconv.Itoa(u))
		}
	}
	if len(del) > 0 {
		if res := d.c.Cmd("UID STORE " + strings.Join(del, ",") + " +FLAGS.SILENT (\\Deleted)"); res.Status != "OK" {
			return "", fmt.Errorf("UID STORE: %+v", res)
		}
		if res := d.c.Cmd("EXPUNGE"); res.Status != "OK" {
			return "", fmt.Errorf("EXPUNGE: %+v", res)
		}
	}
	d.cur = name
	got, err := d.viewUIDs()
	if err != nil {
		return "", err
	}
	if fmt.Sprint(got) != fmt.Sprint(uids) {
		return "", fmt.Errorf("view construction: want UIDs %v got %v", uids, got)
	}
	return name, nil
}

func (d *drv) dropView(name string) {
	d.c.Cmd("CLOSE")
	d.c.Cmd("DELETE " + name)
	d.cur = ""
}

// viewUIDs returns the UIDs of the selected view in sequence order (FETCH 1:* (UID)).
func (d *drv) viewUIDs() ([]int, error) {
	res := d.c.Cmd("NOOP")
	if res.Status != "OK" {
		return nil, fmt.Errorf("NOOP: %+v", res)
	}
	res = d.c.Cmd("FETCH 1:* (UID)")
	if res.Status == "BAD" {
		return nil, nil // empty mailbox
	}
	if res.Status != "OK" {
		return nil, fmt.Errorf("FETCH 1:*: %+v", res)
	}
	var out []int
	for _, e := range wire.Events(res.Untagged) {
		if e.Kind == "FETCH" {
			if e.N != len(out)+1 {
				return nil, fmt.Errorf("FETCH 1:* not dense: %v", res.Untagged)
			}
			out = append(out, e.UID)
		}
	}
	return out, nil
}

func posList(p []int) []int { q := append([]int{}, p...); sort.Ints(q); return q }

func (d *drv) report(c *tcase, cmd, kind, detail string) {
	cls := "small"
	if c.hasHuge() {
		cls = "huge"
	}
	key := fmt.Sprintf("%s/%s/%s/%s", cmd, c.Mode, kind, cls)
	d.r.Violate(key, fmt.Sprintf("%s: %s\nspec expects %s %v", c.sig(cmd), detail, c.Exp.Res, c.Exp.Pos),
		map[string]interface{}{"cmd": cmd, "case": c})
}

// verdict compares an observed (status, positions) with the expectation.
func (d *drv) verdict(c *tcase, cmd string, status string, got []int, alive bool) {
	if !alive {
		d.report(c, cmd, "connection-lost", "the connection was closed or timed out instead of a tagged reply")
		return
	}
	if !c.Exp.Judged {
		return
	}
	if c.Exp.Res == "BAD" {
		if status != "BAD" {
			d.report(c, cmd, "beyond-not-bad", fmt.Sprintf("answered %s selecting %v", status, got))
		}
		return
	}
	if status != "OK" {
		d.report(c, cmd, "valid-refused", "answered "+status)
		return
	}
	if fmt.Sprint(posList(got)) != fmt.Sprint(posList(c.Exp.Pos)) {
		d.report(c, cmd, "wrong-messages", fmt.Sprintf("selected %v", got))
	}
}

func uniq(p []int) []int {
	m := map[int]bool{}
	var out []int
	for _, x := range p {
		if !m[x] {
			m[x] = true
			out = append(out, x)
		}
	}
	sort.Ints(out)
	return out
}

func prefix(c *tcase) string {
	if c.Mode == "uid" {
		return "UID "
	}
	return ""
}

func (d *drv) doFetch(c *tcase) {
	res := d.c.Cmd(prefix(c) + "FETCH " + c.setText() + " (UID)")
	var got []int
	for _, e := range wire.Events(res.Untagged) {
		if e.Kind == "FETCH" {
			got = append(got, e.N)
			if e.N >= 1 && e.N <= len(c.Uids) && e.UID != c.Uids[e.N-1] {
				d.report(c, "FETCH", "seq-uid-mismatch", fmt.Sprintf("sequence %d answered with UID %d", e.N, e.UID))
			}
		}
	}
	d.verdict(c, "FETCH", res.Status, uniq(got), !res.Closed && !res.TimedOut)
}

func (d *drv) doSearch(c *tcase) {
	key := c.setText()
	if c.Mode == "uid" {
		key = "UID " + key
	}
	res := d.c.Cmd("SEARCH " + key)
	var got []int
	for _, l := range res.Untagged {
		if strings.HasPrefix(l.Text, "* SEARCH") {
			for _, f := range strings.Fields(l.Text)[2:] {
				n, _ := strconv.Atoi(f)
				got = append(got, n)
			}
		}
	}
	d.verdict(c, "SEARCH", res.Status, uniq(got), !res.Closed && !res.TimedOut)
	// the same set below NOT, inside OR, in a parenthesised list: every form where the set is refused, one form otherwise
	forms := []string{"paren", "or", "notnot", "not"}
	if c.Exp.Res != "BAD" {
		d.rot++
		forms = forms[d.rot%4 : d.rot%4+1]
	}
	for _, f := range forms {
		e, ok := c.Nested[f]
		if !ok {
			continue
		}
		text := map[string]string{"paren": "(" + key + ")", "or": "OR " + key + " " + key, "notnot": "NOT NOT " + key, "not": "NOT " + key}[f]
		res := d.c.Cmd("SEARCH " + text)
		var got []int
		for _, l := range res.Untagged {
			if strings.HasPrefix(l.Text, "* SEARCH") {
				for _, x := range strings.Fields(l.Text)[2:] {
					n, _ := strconv.Atoi(x)
					got = append(got, n)
				}
			}
		}
		nc := *c
		nc.Exp = e
		d.verdict(&nc, "SEARCH-"+f, res.Status, uniq(got), !res.Closed && !res.TimedOut)
	}
}

// flagged returns the positions that carry \Flagged.
func (d *drv) flagged() ([]int, error) {
	res := d.c.Cmd("FETCH 1:* (FLAGS)")
	if res.Status == "BAD" {
		return nil, nil
	}
	if res.Status != "OK" {
		return nil, fmt.Errorf("FETCH flags: %+v", res)
	}
	var out []int
	for _, e := range wire.Events(res.Untagged) {
		if e.Kind == "FETCH" {
			for _, f := range e.Flags {
				if strings.EqualFold(f, "\\Flagged") {
					out = append(out, e.N)
				}
			}
		}
	}
	return out, nil
}

func (d *drv) doStore(c *tcase) {
	res := d.c.Cmd(prefix(c) + "STORE " + c.setText() + " +FLAGS.SILENT (\\Flagged)")
	alive := !res.Closed && !res.TimedOut
	var got []int
	if alive {
		var err error
		got, err = d.flagged()
		if err != nil {
			d.r.Machinery("%v", err)
			return
		}
		// the authoritative content, as a fresh session sees it, must agree
		if auxGot, err := d.auxFlagged(d.cur); err == nil && fmt.Sprint(uniq(auxGot)) != fmt.Sprint(uniq(got)) {
			d.report(c, "STORE", "session-db-disagree", fmt.Sprintf("session shows \\Flagged on %v, a fresh session on %v", got, auxGot))
		}
	}
	d.verdict(c, "STORE", res.Status, uniq(got), alive)
	if len(got) > 0 {
		d.c.Cmd("STORE 1:* -FLAGS.SILENT (\\Flagged)")
	}
	// the same set with a data item that changes nothing (an empty flag list): the set is resolved all the same
	if alive && c.Exp.Judged {
		item := []string{"+FLAGS ()", "-FLAGS.SILENT ()"}[len(c.setText())%2]
		res := d.c.Cmd(prefix(c) + "STORE " + c.setText() + " " + item)
		switch {
		case res.Closed || res.TimedOut:
			d.report(c, "STORE-EMPTY", "connection-lost", "the connection was closed or timed out instead of a tagged reply")
		case c.Exp.Res == "BAD" && res.Status != "BAD":
			d.report(c, "STORE-EMPTY", "beyond-not-bad", fmt.Sprintf("STORE %s %s answered %s", c.setText(), item, res.Status))
		case c.Exp.Res != "BAD" && res.Status != "OK":
			d.report(c, "STORE-EMPTY", "valid-refused", fmt.Sprintf("STORE %s %s answered %s %s", c.setText(), item, res.Status, res.Text))
		}
	}
}

func (d *drv) auxFlagged(box string) ([]int, error) {
	if res := d.aux.Cmd("EXAMINE " + box); res.Status != "OK" {
		return nil, fmt.Errorf("aux EXAMINE: %+v", res)
	}
	res := d.aux.Cmd("FETCH 1:* (FLAGS)")
	var out []int
	for _, e := range wire.Events(res.Untagged) {
		if e.Kind == "FETCH" {
			for _, f := range e.Flags {
				if strings.EqualFold(f, "\\Flagged") {
					out = append(out, e.N)
				}
			}
		}
	}
	d.aux.Cmd("UNSELECT")
	return out, nil
}

// auxSubjects lists the Subject markers ("u<uid>") of a mailbox in order, through the auxiliary session.
func (d *drv) auxSubjects(box string) ([]int, error) {
	if res := d.aux.Cmd("EXAMINE " + box); res.Status != "OK" {
		return nil, fmt.Errorf("aux EXAMINE %s: %+v", box, res)
	}
	res := d.aux.Cmd("FETCH 1:* (BODY.PEEK[HEADER.FIELDS (SUBJECT)])")
	var out []int
	for _, l := range res.Untagged {
		for _, b := range l.Lits {
			s := strings.TrimSpace(string(b))
			s = strings.TrimPrefix(s, "Subject: u")
			n, _ := strconv.Atoi(s)
			out = append(out, n)
		}
	}
	d.aux.Cmd("UNSELECT")
	return out, nil
}

func (d *drv) emptyBox(box string) {
	d.aux.Cmd("SELECT " + box)
	d.aux.Cmd("STORE 1:* +FLAGS.SILENT (\\Deleted)")
	d.aux.Cmd("CLOSE")
}

func (d *drv) uidsToPos(c *tcase, uids []int) []int {
	var out []int
	for _, u := range uids {
		for i, v := range c.Uids {
			if v == u {
				out = append(out, i+1)
			}
		}
	}
	return out
}

func (d *drv) doCopy(c *tcase) {
	res := d.c.Cmd(prefix(c) + "COPY " + c.setText() + " dst")
	alive := !res.Closed && !res.TimedOut
	var got []int
	if alive {
		subj, err := d.auxSubjects("dst")
		if err != nil {
			d.r.Machinery("%v", err)
			return
		}
		got = d.uidsToPos(c, subj)
		if len(subj) > 0 {
			d.emptyBox("dst")
		}
		after, _ := d.viewUIDs()
		if fmt.Sprint(after) != fmt.Sprint(c.Uids) && !(len(after) == 0 && len(c.Uids) == 0) {
			d.report(c, "COPY", "source-changed", fmt.Sprintf("source UIDs became %v", after))
		}
	}
	d.verdict(c, "COPY", res.Status, uniq(got), alive)
}

// doMove and doUIDExpunge destroy the view; they return true when it must be rebuilt.
func (d *drv) doMove(c *tcase) bool {
	res := d.c.Cmd(prefix(c) + "MOVE " + c.setText() + " dst")
	alive := !res.Closed && !res.TimedOut
	var got []int
	rebuilt := false
	if alive {
		subj, err := d.auxSubjects("dst")
		if err != nil {
			d.r.Machinery("%v", err)
			return true
		}
		got = d.uidsToPos(c, subj)
		if len(subj) > 0 {
			d.emptyBox("dst")
		}
		after, _ := d.viewUIDs()
		// what is left in the source must be exactly the complement
		left := map[int]bool{}
		for _, u := range after {
			left[u] = true
		}
		var wantLeft []int
		moved := map[int]bool{}
		for _, p := range got {
			moved[p] = true
		}
		for i, u := range c.Uids {
			if !moved[i+1] {
				wantLeft = append(wantLeft, u)
			}
		}
		if fmt.Sprint(after) != fmt.Sprint(wantLeft) && !(len(after) == 0 && len(wantLeft) == 0) {
			d.report(c, "MOVE", "source-inconsistent", fmt.Sprintf("destination received positions %v but source now holds UIDs %v", got, after))
		}
		rebuilt = fmt.Sprint(after) != fmt.Sprint(c.Uids) && !(len(after) == 0 && len(c.Uids) == 0)
	} else {
		rebuilt = true
	}
	d.verdict(c, "MOVE", res.Status, uniq(got), alive)
	return rebuilt
}

func (d *drv) doUIDExpunge(c *tcase) bool {
	if c.Mode != "uid" {
		return false
	}
	if c.N > 0 {
		d.c.Cmd("STORE 1:* +FLAGS.SILENT (\\Deleted)")
	}
	res := d.c.Cmd("UID EXPUNGE " + c.setText())
	alive := !res.Closed && !res.TimedOut
	var got []int
	if alive {
		after, _ := d.viewUIDs()
		left := map[int]bool{}
		for _, u := range after {
			left[u] = true
		}
		for i, u := range c.Uids {
			if !left[u] {
				got = append(got, i+1)
			}
		}
	}
	d.verdict(c, "UIDEXPUNGE", res.Status, uniq(got), alive)
	return true
}

func (d *drv) reconnect() error {
	if d.c != nil {
		d.c.Close()
	}
	c, err := wire.Dial(d.srv.Addr)
	if err != nil {
		return err
	}
	d.c = c
	if res := c.Login("user", "pass"); res.Status != "OK" {
		return fmt.Errorf("login: %+v", res)
	}
	d.cur = ""
	return nil
}

func run(r *ev.Run, tier, replay string) {
	seed := ev.Seed()
	cfg := filepath.Join(ev.Root(), "spec", "cfg", "GluonSeqSet."+tier+".cfg")
	var cases []*tcase
	if replay != "" {
		b, err := os.ReadFile(replay)
		if err != nil {
			r.Machinery("replay: %v", err)
			return
		}
		var rp struct {
			Replay struct {
				Cmd  string `json:"cmd"`
				Case *tcase `json:"case"`
			} `json:"replay"`
		}
		if err := json.Unmarshal(b, &rp); err != nil || rp.Replay.Case == nil {
			r.Machinery("replay file: %v", err)
			return
		}
		cases = []*tcase{rp.Replay.Case}
		r.Set("states", 1)
		r.Set("transitions", 1)
	} else {
		cfgs := []string{cfg}
		if tier == "quick" {
			// sets of two ranges over a smaller number domain (overlaps, duplicates, mixed order)
			cfgs = append(cfgs, filepath.Join(ev.Root(), "spec", "cfg", "GluonSeqSet.quick2.cfg"))
		}
		var states, transitions int64
		for _, cf := range cfgs {
			before := len(cases)
			res, err := tlc.Run(tlc.Options{
				SpecDir: filepath.Join(ev.Root(), "spec"), Module: "GluonSeqSet", Cfg: cf,
				Workers: 8, Timeout: 20 * time.Minute, KeepOutput: true,
				OnJSON: func(raw []byte) {
					var c tcase
					if err := json.Unmarshal(raw, &c); err == nil {
						cases = append(cases, &c)
					}
				},
			})
			if err != nil {
				r.Machinery("tlc: %v", err)
				return
			}
			if res.Violated != "" || res.Error != "" || !res.Finished || res.TimedOut {
				r.Machinery("TLC on GluonSeqSet (%s) did not finish cleanly: violated=%q error=%q timeout=%v\n%s", cf, res.Violated, res.Error, res.TimedOut, tail(res.Output))
				return
			}
			if int64(len(cases)-before) != res.Distinct {
				r.Machinery("TLC printed %d cases but found %d states", len(cases)-before, res.Distinct)
				return
			}
			states += res.Distinct
			transitions += res.Generated
		}
		r.Set("states", states)
		r.Set("transitions", transitions)
	}
	sort.SliceStable(cases, func(i, j int) bool { return cases[i].N < cases[j].N })

	srv, err := fixture.StartChild(fixture.ChildConfig{})
	if err != nil {
		r.Machinery("server: %v", err)
		return
	}
	d := &drv{r: r, srv: srv, rnd: rand.New(rand.NewSource(seed))}
	defer func() { d.srv.Stop() }()
	if err := d.reconnect(); err != nil {
		r.Machinery("%v", err)
		return
	}
	d.aux, err = wire.Dial(srv.Addr)
	if err != nil {
		r.Machinery("%v", err)
		return
	}
	defer d.aux.Close()
	d.aux.Login("user", "pass")
	d.c.Cmd("CREATE dst")

	// sampling rates of the view-destroying commands
	mutRate := 1.0
	copyRate := 1.0
	mutCap, copyCap := 3000.0, 12000.0
	if tier == "quick" {
		mutCap, copyCap = 1200.0, 3000.0
	}
	if float64(len(cases)) > mutCap {
		mutRate = mutCap / float64(len(cases))
	}
	if float64(len(cases)) > copyCap {
		copyRate = copyCap / float64(len(cases))
	}
	counts := map[string]int64{}
	lastCmd := ""
	crashes := 0
	curN := -1
	var view string
	ensure := func(c *tcase) bool {
		if curN == c.N && view != "" {
			return true
		}
		if view != "" {
			d.dropView(view)
		}
		v, err := d.buildView(c.Uids)
		if err != nil {
			r.Machinery("cannot build view of size %d: %v", c.N, err)
			return false
		}
		view, curN = v, c.N
		return true
	}
	rebuild := func(c *tcase) bool {
		d.dropView(view)
		view = ""
		curN = -1
		return ensure(c)
	}
	alive := func(c *tcase) bool {
		// a lost connection has been reported by verdict(); get a new one and a new view
		if res := d.c.Cmd("NOOP"); res.Status == "OK" {
			return true
		}
		if !d.srv.WaitExit(300 * time.Millisecond) {
			// process alive: only this connection was lost (already reported by verdict)
			if err := d.reconnect(); err != nil {
				r.Machinery("cannot reconnect to a live server: %v", err)
				return false
			}
			view, curN = "", -1
			return ensure(c)
		}
		cls := "small"
		if c.hasHuge() {
			cls = "huge"
		}
		r.Violate("server-crash/"+c.Mode+"/"+cls, "the server process died while handling "+c.sig(lastCmd)+"\n"+d.srv.CrashOutput(),
			map[string]interface{}{"cmd": lastCmd, "case": c})
		crashes++
		if crashes > 20 {
			r.Machinery("more than 20 server crashes, giving up the rest of the run")
			return false
		}
		d.srv.Stop()
		ns, err := fixture.StartChild(fixture.ChildConfig{})
		if err != nil {
			r.Machinery("restart server: %v", err)
			return false
		}
		d.srv = ns
		if err := d.reconnect(); err != nil {
			r.Machinery("%v", err)
			return false
		}
		d.aux.Close()
		d.aux, _ = wire.Dial(ns.Addr)
		d.aux.Login("user", "pass")
		d.c.Cmd("CREATE dst")
		view, curN = "", -1
		return ensure(c)
	}
	for _, c := range cases {
		if !ensure(c) {
			return
		}
		steps := []string{"FETCH", "SEARCH", "STORE"}
		if d.rnd.Float64() < copyRate {
			steps = append(steps, "COPY")
		}
		if d.rnd.Float64() < mutRate {
			steps = append(steps, "MOVE")
			if c.Mode == "uid" {
				steps = append(steps, "UIDEXPUNGE")
			}
		}
		if replay != "" {
			steps = []string{"FETCH", "SEARCH", "STORE", "COPY", "MOVE", "UIDEXPUNGE"}
		}
		for _, st := range steps {
			counts[st]++
			lastCmd = st
			r.Eval(c.sig(st), c.Exp.Judged)
			switch st {
			case "FETCH":
				d.doFetch(c)
			case "SEARCH":
				d.doSearch(c)
			case "STORE":
				d.doStore(c)
			case "COPY":
				d.doCopy(c)
			case "MOVE":
				if d.doMove(c) {
					if !alive(c) || !rebuild(c) {
						return
					}
				}
			case "UIDEXPUNGE":
				if d.doUIDExpunge(c) {
					if !alive(c) || !rebuild(c) {
						return
					}
				}
			}
			if !alive(c) {
				return
			}
		}
		if len(cases) < 50 || d.rnd.Intn(len(cases)/4+1) == 0 {
			r.Sample(map[string]interface{}{"n": c.N, "uids": c.Uids, "mode": c.Mode, "set": c.setText(), "expected": c.Exp})
		}
	}
	r.Set("traces_validated_against_impl", int64(len(cases)))
	r.Set("executions_per_command", counts)
	r.Set("exhaustive", mutRate == 1.0 && copyRate == 1.0)
	r.Set("rule", "one case = (view size, seq|uid mode, message set) enumerated exhaustively by TLC from GluonSeqSet with the expected positions; executed with FETCH, SEARCH, STORE on every case and COPY/MOVE/UID EXPUNGE on every case (quick) or a seeded sample (thorough); non-trivial = judged by the property (all except UID n:* above the highest UID); distinct = distinct (command, mode, n, set)")
	r.Assumptions = []string{"TLC integers cannot hold 2^32: huge numbers are symbolic in the spec (meaning: above every sequence number and UID) and rendered to decimal text by the harness",
		"effect of STORE/COPY/MOVE/UID EXPUNGE observed through FETCH in the acting session and a fresh EXAMINE in a second session"}
}

func tail(s string) string {
	if len(s) > 3000 {
		return s[len(s)-3000:]
	}
	return s
}
