package c19

import (
	"os"
	"strconv"
	"testing"
)

// TestC19Race runs stress rounds of the C19 driver so that `go test -race` can watch them: a few seeded
// rounds as in the check itself, and rounds that aim at the places where GluonLocks says the single-owner rule
// is broken (snapshots read or written by the update goroutine and by other sessions' removeState).
// It is started by the driver in the thorough tier (raceStep); a race report fails the test.
func TestC19Race(t *testing.T) {
	seed := int64(1)
	if s := os.Getenv("C19_RACE_SEED"); s != "" {
		if n, err := strconv.ParseInt(s, 10, 64); err == nil {
			seed = n
		}
	}
	var scs []*scenario
	for round := 0; round < 4; round++ {
		scs = append(scs, makeScenario(seed, 1000+round, "quick"))
	}
	for round := 0; round < 3; round++ {
		sc := &scenario{Seed: seed, Round: 2000 + round, Users: 1}
		busy := []string{"select", "store", "purge", "select", "fetch", "store", "expunge", "select", "search", "store", "select", "purge"}
		for i := 0; i < 4; i++ {
			end := "logout"
			if i%2 == 1 {
				end = "drop"
			}
			sc.Clients = append(sc.Clients, clientSc{User: 0, Steps: busy, End: end})
		}
		for i := 0; i < 40; i++ {
			sc.Updates = append(sc.Updates, []string{"idchg", "flags", "create", "idchg"}[i%4])
		}
		sc.Shutdown = []shutStep{{Call: "close", At: 4*len(busy) + 8}}
		scs = append(scs, sc)
	}
	for _, sc := range scs {
		out, err := runRound(sc, nil)
		if err != nil {
			t.Fatalf("round %d: %v", sc.Round, err)
		}
		for _, f := range out.Findings {
			t.Logf("finding %s", f.Key)
		}
		if out.Fatal {
			t.Fatalf("round %d: a watchdog fired", sc.Round)
		}
	}
}
