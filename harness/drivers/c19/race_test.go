package c19

import (
	"os"
	"strconv"
	"testing"
)

// TestC19Race runs a few stress rounds of the C19 driver so that `go test -race` can watch them.
// It is started by the driver in the thorough tier (raceStep); a race report fails the test.
func TestC19Race(t *testing.T) {
	seed := int64(1)
	if s := os.Getenv("C19_RACE_SEED"); s != "" {
		if n, err := strconv.ParseInt(s, 10, 64); err == nil {
			seed = n
		}
	}
	for round := 0; round < 6; round++ {
		sc := makeScenario(seed, 1000+round, "quick")
		out, err := runRound(sc, nil)
		if err != nil {
			t.Fatalf("round %d: %v", round, err)
		}
		for _, f := range out.Findings {
			t.Logf("finding %s", f.Key)
		}
		if out.Fatal {
			t.Fatalf("round %d: a watchdog fired", round)
		}
	}
}
