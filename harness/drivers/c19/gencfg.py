#!/usr/bin/env python3
# Regenerates /verif/spec/cfg/GluonLocks.*.cfg (kept as the record of how the configurations differ from `base`).
# Usage: python3 gencfg.py
base = dict(
  Users='{"u1"}', Sessions='{"s1"}', LoginTo='<- LT_Any', PreLogged='<- PL_None',
  CmdKinds='{"login", "sel", "idle", "logout"}', MaxCmds='2', UpdKinds='{"normal"}', MaxUpdates='1', ChanCap='1',
  Removable='{"u1"}', LateDial='TRUE', CtxCancel='FALSE', FreeSections='FALSE', WriterPref='TRUE', Labels='FALSE', OpenEnv='FALSE', Eager='TRUE', Coarse='FALSE',
  FixAcceptSelect='TRUE', FixQueueDiscard='TRUE', FixIDChanged='TRUE', FixPeek='TRUE', FixCapsOrder='FALSE', FixReleaseCtx='TRUE', Bug='"none"')
SAFETY = "INVARIANTS TypeOK LockOrderCode StatesCounted NoUseAfterDbClose DbClosedMeansNoStates OnlyOwner"
def cfg(name, over, tail=SAFETY, sym=False, spec=False, comment=""):
    d = dict(base); d.update(over)
    out = ["\\* " + comment, "CONSTANTS"]
    for k, v in d.items():
        out.append("  %s %s" % (k, v if v.startswith("<-") else "= " + v))
    if sym: out.append("SYMMETRY SymSessions")
    if spec: out.append("SPECIFICATION Spec")
    else: out += ["INIT Init", "NEXT Next"]
    out.append(tail)
    open("/verif/spec/cfg/GluonLocks.%s.cfg" % name, "w").write("\n".join(out) + "\n")
LIVE = "PROPERTIES CloseReturns RemoveUserReturns EveryCommandCompletes NothingLeftEventually\nINVARIANTS TypeOK"
LIVE2 = "PROPERTIES CloseReturns RemoveUserReturns EveryCommandCompletes NothingLeftEventually\nINVARIANTS TypeOK NoGoroutineLeft"
# ---- quick
cfg("quick", {}, comment="quick: every step separate; one session against connector update, RemoveUser and Close; intended design")
cfg("live", dict(PreLogged='<- PL_All', MaxCmds='1', CmdKinds='{"sel", "idle"}', MaxUpdates='0'), tail=LIVE, spec=True,
    comment="liveness under weak fairness of every goroutine: one authenticated session, one command (selected-state or IDLE), RemoveUser, Close")
# as-code deviations: each run is expected to end with the named violation
cfg("ascode.accept", dict(FixAcceptSelect='FALSE', CmdKinds='{"login"}', MaxCmds='1', MaxUpdates='0', Removable='{}'),
    comment="newConnCh as coded: expected deadlock = accept goroutine stuck in `connCh <- conn` after serve returned")
cfg("ascode.queue", dict(FixQueueDiscard='FALSE', PreLogged='<- PL_All', CmdKinds='{}', MaxCmds='0', MaxUpdates='2', Removable='{}'),
    comment="state.Close as coded (queue.Close, not CloseAndDiscardQueued): expected deadlock = queue pump stuck in `ch <- item`")
cfg("ascode.idchg", dict(FixIDChanged='FALSE', PreLogged='<- PL_All', UpdKinds='{"idchg"}', CmdKinds='{"noop"}', MaxCmds='1', Removable='{}'),
    comment="applyMessageIDChanged as coded: expected OnlyOwner violated by the update goroutine")
cfg("ascode.peek", dict(FixPeek='FALSE', Sessions='{"s1", "s2"}', PreLogged='<- PL_All', CmdKinds='{"noop"}', MaxCmds='0', MaxUpdates='0', Removable='{}'),
    comment="removeState as coded (other.HasMessage): expected OnlyOwner violated by another session's goroutine")
cfg("ascode.caps", dict(FixCapsOrder='FALSE', CmdKinds='{"caps"}', MaxCmds='1', MaxUpdates='0', Removable='{}'), tail=SAFETY.replace("LockOrderCode", "LockOrder"),
    comment="handleCapability as coded (capsLock then userLock): the strict hierarchy LockOrder is violated (latent: both locks are private to one session; LockOrderCode and the deadlock check hold in every other configuration with this order)")
cfg("ascode.ctx", dict(FixReleaseCtx='FALSE', CtxCancel='TRUE', PreLogged='<- PL_All', CmdKinds='{}', MaxCmds='0', MaxUpdates='0', Removable='{}'),
    comment="Session.done as coded (releases the state with Serve's context): the application cancels that context, then closes: expected deadlock = Close waits for statesWG forever")
# seeded bugs (detection power): each run is expected to end with a violation
seed = dict(Sessions='{"s1", "s2"}', PreLogged='<- PL_All', CmdKinds='{"sel"}', MaxCmds='1', MaxUpdates='1', Removable='{}', Coarse='TRUE')
one = dict(seed, Sessions='{"s1"}')
cfg("bug.removeStateHoldsLock", dict(seed, MaxUpdates='0', CmdKinds='{"auth"}', Bug='"removeStateHoldsLock"'), tail="INVARIANTS TypeOK", comment="seeded: removeState keeps statesLock over db.Write and state.Close: expected deadlock (statesLock W -> db W against db W -> statesLock R)")
cfg("bug.removeStateHoldsLock.order", dict(seed, Bug='"removeStateHoldsLock"'), comment="same seed: expected LockOrderCode violated")
cfg("bug.closeNoStatesWait", dict(one, MaxUpdates='0', Bug='"closeNoStatesWait"'), comment="seeded: user.close forgets statesWG.Wait")
cfg("bug.doneNoRelease", dict(one, Bug='"doneNoRelease"'), comment="seeded: Session.done does not release the state")
cfg("bug.idleNotStopped", dict(one, Bug='"idleNotStopped"', CmdKinds='{"idle"}'), comment="seeded: endIdle does not close idleCh (IDLE sender never stops)")
cfg("bug.sendIgnoresQuit", dict(one, Bug='"sendIgnoresQuit"', CmdKinds='{}', MaxCmds='0', MaxUpdates='2', Removable='{"u1"}'), tail="INVARIANTS TypeOK", comment="seeded: updateInjector.send does not select on forwardQuitCh: expected deadlock = forwarder stuck in `updatesCh <- update` after the update loop has gone, RemoveUser / Close wait for forwardWG for ever")
# ---- thorough
cfg("fine2", dict(MaxCmds='3', CmdKinds='{"login", "sel", "idle", "done", "logout", "lit", "caps", "noop", "auth"}'), comment="thorough: every step separate, one session, three commands of every class")
cfg("ctx", dict(CtxCancel='TRUE', CmdKinds='{"login", "sel", "idle"}', MaxCmds='1'), comment="thorough: intended design with a cancellable Serve context: one session, every step separate")
cfg("live.ctx", dict(CtxCancel='TRUE', PreLogged='<- PL_All', MaxCmds='1', CmdKinds='{"sel", "idle"}', MaxUpdates='0'), tail=LIVE, spec=True, comment="thorough: liveness with a cancellable Serve context")
cfg("two.cmd", dict(Sessions='{s1, s2}', PreLogged='<- PL_All', CmdKinds='{"sel"}', MaxCmds='1', MaxUpdates='0', Removable='{}', Coarse='TRUE'), sym=True,
    comment="thorough: two authenticated sessions of one user run a selected-state command each (each queues an update to the other) against disconnects and Close")
cfg("two.idle", dict(Sessions='{s1, s2}', PreLogged='<- PL_All', CmdKinds='{"idle"}', MaxCmds='1', MaxUpdates='1', Removable='{}', Coarse='TRUE'), sym=True,
    comment="thorough: two sessions enter IDLE while a connector update is delivered, disconnects, Close")
cfg("two.login", dict(Sessions='{s1, s2}', CmdKinds='{"login"}', MaxCmds='1', MaxUpdates='0', Coarse='TRUE'), sym=True,
    comment="thorough: two clients dial and LOGIN while RemoveUser and Close run (accept loop, GetState vs user.close)")
cfg("two.users", dict(Users='{"u1", "u2"}', Sessions='{"s1", "s2"}', PreLogged='<- PL_Split', CmdKinds='{"sel"}', MaxCmds='1', MaxUpdates='0', Removable='{"u1"}', Coarse='TRUE'),
    comment="thorough: two users with one session each; RemoveUser(u1) races with Close")
cfg("three", dict(Sessions='{s1, s2, s3}', PreLogged='<- PL_All', CmdKinds='{"noop"}', MaxCmds='0', MaxUpdates='1', Removable='{}', Coarse='TRUE'), sym=True,
    comment="thorough: three authenticated sessions receive a connector update, disconnect abruptly or are closed by Close")
cfg("live2", dict(MaxCmds='1', CmdKinds='{"login", "sel", "idle", "lit"}'), tail=LIVE2, spec=True,
    comment="thorough: liveness, two commands, with NoGoroutineLeft evaluated through ENABLED")
