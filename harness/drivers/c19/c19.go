// Package c19: concurrent sessions, connector updates and shutdown - no deadlock, every command completes,
// RemoveUser and Close return, nothing is left behind.
//
// spec/GluonLocks.tla models gluon's goroutines as program-counter machines over its locks, wait groups and
// channels in code order; TLC checks it exhaustively on small instances (deadlock, lock order, single owner,
// liveness under weak fairness).  The binding to the code has two parts:
//
//	(a) trace validation: the real server runs under stress with the verifhook.Event call sites of hooks.diff;
//	    every recording is handed to TLC (spec/GluonLocksTrace.tla) which decides whether the observed order of
//	    lock / wait-group / channel / lifecycle operations is a behaviour of GluonLocks and evaluates its
//	    invariants on it;
//	(b) watchdogs on the real server: a client call without completion, Close / RemoveUser that do not return,
//	    goroutines of gluon that outlive Close.
//
// The stress runs in a child process of the harness binary so that a fatal runtime error of the server
// (concurrent map access) is an observation and not the end of the check.
package c19

import (
	"encoding/json"
	"fmt"
	"os"
	"os/exec"
	"path/filepath"
	"regexp"
	"sort"
	"strings"
	"sync"
	"time"

	"github.com/ProtonMail/gluon/internal/verifhook"
	"github.com/ProtonMail/gluon/verif/drivers"
	"github.com/ProtonMail/gluon/verif/pkg/ev"
	"github.com/ProtonMail/gluon/verif/pkg/tlc"
)

func init() { drivers.Register("C19", "model_checking", run) }

// ---- exhaustive TLC runs ---------------------------------------------------------

type modelRun struct {
	name    string
	workers int
	expect  string // "" = must finish cleanly; otherwise the violation the run must end with ("deadlock" or an invariant)
	timeout time.Duration
	what    string
	res     *tlc.Result
	err     error
}

func (m *modelRun) run() {
	if m.timeout == 0 {
		m.timeout = 25 * time.Minute
	}
	m.res, m.err = tlc.Run(tlc.Options{
		SpecDir: filepath.Join(ev.Root(), "spec"), Module: "GluonLocks",
		Cfg:     filepath.Join(ev.Root(), "spec", "cfg", "GluonLocks."+m.name+".cfg"),
		Workers: m.workers, Timeout: m.timeout, KeepOutput: true, HeapGB: 6,
	})
}

func (m *modelRun) ok(r *ev.Run) bool {
	if m.err != nil {
		r.Machinery("tlc %s: %v", m.name, m.err)
		return false
	}
	res := m.res
	if m.expect == "" {
		if res.Violated != "" || res.Error != "" || !res.Finished || res.TimedOut {
			r.Machinery("TLC on GluonLocks.%s did not finish cleanly: violated=%q error=%q timeout=%v\n%s", m.name, res.Violated, res.Error, res.TimedOut, tail(res.Output, 4000))
			return false
		}
		return true
	}
	got := res.Violated
	if res.ViolationKind == "temporal" {
		got = "temporal"
	}
	if got != m.expect {
		r.Machinery("TLC on GluonLocks.%s was expected to report %s but reported violated=%q error=%q finished=%v timeout=%v\n%s",
			m.name, m.expect, res.Violated, res.Error, res.Finished, res.TimedOut, tail(res.Output, 3000))
		return false
	}
	return true
}

var rePcLine = regexp.MustCompile(`(?s)/\\ pc = \((.*?)\)\n`)

// lastPc extracts the program counters of the last state TLC printed (the stuck state of a deadlock run).
func lastPc(out string) string {
	m := rePcLine.FindAllStringSubmatch(out, -1)
	if len(m) == 0 {
		return ""
	}
	s := m[len(m)-1][1]
	s = strings.NewReplacer("\n", " ", "@@", ",", ":>", "=", "<<", "", ">>", "", "\"", "").Replace(s)
	return strings.Join(strings.Fields(s), " ")
}

func models(tier string) []*modelRun {
	ms := []*modelRun{
		{name: "quick", workers: 6, what: "intended design, every step separate: one session (LOGIN, selected-state command, IDLE, LOGOUT; two commands) against a connector update, RemoveUser, Close, late dials"},
		{name: "live", workers: 3, what: "liveness under weak fairness: CloseReturns, RemoveUserReturns, EveryCommandCompletes, NothingLeftEventually (one authenticated session, one command)"},
		{name: "ascode.accept", workers: 2, expect: "deadlock", what: "newConnCh as coded"},
		{name: "ascode.queue", workers: 2, expect: "deadlock", what: "state.Close as coded (queue.Close)"},
		{name: "ascode.idchg", workers: 2, expect: "OnlyOwner", what: "applyMessageIDChanged as coded"},
		{name: "ascode.peek", workers: 2, expect: "OnlyOwner", what: "removeState as coded (other.HasMessage)"},
		{name: "ascode.caps", workers: 2, expect: "LockOrder", what: "handleCapability as coded"},
		{name: "ascode.ctx", workers: 2, expect: "deadlock", what: "Session.done as coded: Serve context cancelled, then Close"},
		{name: "bug.removeStateHoldsLock.order", workers: 2, expect: "LockOrderCode", what: "seeded: removeState keeps statesLock over db.Write and state.Close (lock hierarchy)"},
		{name: "bug.closeNoStatesWait", workers: 2, expect: "DbClosedMeansNoStates", what: "seeded: user.close forgets statesWG.Wait"},
		{name: "bug.doneNoRelease", workers: 2, expect: "deadlock", what: "seeded: Session.done does not release the state"},
		{name: "bug.idleNotStopped", workers: 2, expect: "deadlock", what: "seeded: IDLE sender not stopped"},
		{name: "bug.sendIgnoresQuit", workers: 2, expect: "deadlock", what: "seeded: updateInjector.send does not select on forwardQuitCh (directed round 9101 is the real-code counterpart)"},
	}
	if tier == "thorough" {
		ms = append(ms,
			&modelRun{name: "bug.removeStateHoldsLock", workers: 4, expect: "deadlock", what: "seeded: removeState keeps statesLock over db.Write and state.Close (the deadlock itself)"},
			&modelRun{name: "ctx", workers: 4, what: "intended design with a cancellable Serve context, every step separate"},
			&modelRun{name: "live.ctx", workers: 3, what: "liveness with a cancellable Serve context"},
			&modelRun{name: "fine2", workers: 6, what: "every step separate, one session, three commands of every class"},
			&modelRun{name: "two.cmd", workers: 6, what: "two sessions of one user, a selected-state command each"},
			&modelRun{name: "two.idle", workers: 6, what: "two sessions in IDLE, connector update"},
			&modelRun{name: "two.login", workers: 6, what: "two clients dial and LOGIN against RemoveUser and Close"},
			&modelRun{name: "two.users", workers: 6, what: "two users, RemoveUser(u1) against Close"},
			&modelRun{name: "three", workers: 6, what: "three sessions, connector update, teardown"},
			&modelRun{name: "live2", workers: 3, what: "liveness with NoGoroutineLeft: one session from dial and LOGIN on, one command, connector update, RemoveUser, Close"},
		)
	}
	return ms
}

// runModels runs the TLC configurations with at most `par` running at a time.
func runModels(r *ev.Run, tier string, par int) bool {
	ms := models(tier)
	sem := make(chan struct{}, par)
	var wg sync.WaitGroup
	for _, m := range ms {
		wg.Add(1)
		go func(m *modelRun) {
			defer wg.Done()
			sem <- struct{}{}
			defer func() { <-sem }()
			m.run()
		}(m)
	}
	wg.Wait()
	good := true
	var states, trans int64
	runs := map[string]interface{}{}
	nonVac := map[string]string{}
	for _, m := range ms {
		if !m.ok(r) {
			good = false
			continue
		}
		e := map[string]interface{}{"distinct": m.res.Distinct, "generated": m.res.Generated, "depth": m.res.Depth,
			"wall_s": m.res.Wall.Seconds(), "what": m.what}
		if m.expect == "" {
			states += m.res.Distinct
			trans += m.res.Generated
		} else {
			e["expected_violation"] = m.expect
			note := "TLC reports " + m.expect
			if m.expect == "deadlock" {
				if pc := lastPc(m.res.Output); pc != "" {
					e["stuck_state_pc"] = pc
				}
			}
			nonVac[m.name] = m.what + ": " + note
		}
		runs[m.name] = e
	}
	r.Set("tlc_runs", runs)
	r.Set("expected_violations", nonVac)
	r.Set("states", states)
	r.Set("transitions", trans)
	return good
}

// ---- the stress child -------------------------------------------------------------

type plan struct {
	Seed     int64     `json:"seed"`
	Tier     string    `json:"tier"`
	Rounds   []int     `json:"rounds"`
	Validate int       `json:"validate"` // recordings handed to TLC
	Replay   *scenario `json:"replay,omitempty"`
	Repeat   int       `json:"repeat,omitempty"`
}

type replayObj struct {
	Seed     int64     `json:"seed"`
	Round    int       `json:"round"`
	Scenario *scenario `json:"scenario"`
	How      string    `json:"how"`
}

// cleanTLC drops the parser chatter from TLC output.
func cleanTLC(out string) string {
	var b strings.Builder
	for _, ln := range strings.Split(out, "\n") {
		if strings.HasPrefix(ln, "Parsing file") || strings.HasPrefix(ln, "Semantic processing") || strings.HasPrefix(ln, "Linting of") || strings.TrimSpace(ln) == "" {
			continue
		}
		b.WriteString(ln)
		b.WriteByte('\n')
	}
	return b.String()
}

// child runs the rounds of the plan in this process.
func child(r *ev.Run, p *plan) {
	rec := &recorder{}
	verifhook.Install(verifhook.Callbacks{Event: rec.event})
	defer verifhook.Install(verifhook.Callbacks{})
	type job struct {
		sc *scenario
	}
	var jobs []job
	if p.Replay != nil {
		n := p.Repeat
		if n == 0 {
			n = 5
		}
		for i := 0; i < n; i++ {
			jobs = append(jobs, job{p.Replay})
		}
	} else {
		for _, k := range p.Rounds {
			jobs = append(jobs, job{makeScenario(p.Seed, k, p.Tier)})
		}
	}
	hooks := -1
	validated := 0
	var tlcStates int64
	teardowns := map[string]int64{}
	for _, j := range jobs {
		sc := j.sc
		out, err := runRound(sc, rec)
		if err != nil {
			r.Machinery("round %d: %v", sc.Round, err)
			continue
		}
		r.Add("rounds", 1)
		r.Add("sessions", int64(len(sc.Clients)))
		r.Add("client_calls_completed", out.Commands)
		r.Add("connector_updates", int64(len(sc.Updates))+out.Flooded)
		r.Add("hook_events", int64(len(out.Events)))
		for k, v := range out.Teardowns {
			teardowns[k] += int64(v)
		}
		shut := make([]string, 0, len(sc.Shutdown))
		for _, s := range sc.Shutdown {
			c := strings.SplitN(s.Call, ":", 2)[0]
			if s.Par {
				c = "||" + c
			}
			shut = append(shut, c)
		}
		for _, c := range sc.Clients {
			r.Eval(fmt.Sprintf("%s|%s|%s", strings.Join(c.Steps, ","), c.End, strings.Join(shut, ">")), true)
		}
		rp := replayObj{Seed: sc.Seed, Round: sc.Round, Scenario: sc, How: "re-runs this scenario several times (the interleaving itself is up to the scheduler)"}
		for _, f := range out.Findings {
			r.Violate(f.Key, f.Detail, rp)
		}
		r.Sample(map[string]interface{}{"scenario": sc.describe(), "completed_client_calls": out.Commands, "close_returned": out.Closed,
			"gluon_goroutines_left": out.Leaked, "hook_events": len(out.Events)})
		if hooks < 0 {
			hooks = len(out.Events)
		}
		if len(out.Events) == 0 || validated >= p.Validate {
			if out.Fatal {
				r.Set("stopped_after_hang", true)
				break
			}
			continue
		}
		t := translate(out.Events)
		r.Add("trace_events_bound", int64(len(t.Lines)))
		if d := os.Getenv("C19_KEEP"); d != "" { // development aid: keep the recording and its cfg
			_ = os.WriteFile(filepath.Join(d, fmt.Sprintf("trace-%d-%d.ndjson", sc.Seed, sc.Round)), t.ndjson(), 0o644)
			_ = os.WriteFile(filepath.Join(d, fmt.Sprintf("trace-%d-%d.cfg", sc.Seed, sc.Round)), []byte(traceCfg(t, nil)), 0o644)
		}
		// an invariant that fails on the recording is a finding; the rest of the recording is still followed without it
		skip := map[string]bool{}
		for try := 0; try < 5; try++ {
			v := validate(t, 6*time.Minute, skip)
			tlcStates += v.States
			if v.Problem != "" {
				r.Machinery("trace of round %d: %s\n%s", sc.Round, v.Problem, tail(cleanTLC(v.Output), 2500))
				break
			}
			if v.Invariant != "" {
				who := ""
				if v.At >= 1 && v.At <= len(t.Lines) {
					l := t.Lines[v.At-1]
					who = "/" + l.G + "/" + l.Op + "-" + l.Obj
					if l.Op == "touch" {
						who = "/" + l.G + "/" + l.via
					}
				}
				r.Violate("trace/"+v.Invariant+who, fmt.Sprintf("the recorded run of the real server violates %s of GluonLocks at event %d:\n%s\n%s",
					v.Invariant, v.At, around(t, v.At, 12, 2), sc.describe()), rp)
				skip[v.Invariant] = true
				continue
			}
			if v.Accepted {
				validated++
				r.Add("traces_validated_against_impl", 1)
			} else if inv, at, prob := validateFree(t, 4*time.Minute); inv != "" && at >= 1 && at <= len(t.Lines) {
				// the goroutine programs of GluonLocks cannot follow the recording; the lock discipline alone judges it
				l := t.Lines[at-1]
				r.Violate("trace/"+inv+"/"+l.G+"/"+l.Op+"-"+l.Obj, fmt.Sprintf("the recorded run of the real server cannot be followed by GluonLocks from event %d on, and it breaks the lock hierarchy (%s of GluonLocksFree) at event %d: %s:%s acquires %s while it holds a lock that ranks above it\n%s\n%s",
					v.At, inv, at, l.G, l.ID, l.Obj, around(t, at, 14, 2), sc.describe()), rp)
			} else {
				r.Machinery("trace of round %d is not a behaviour of GluonLocks: event %d of %d cannot be followed (spec gap until judged; lock hierarchy along the recording: %s):\n%s\n%s",
					sc.Round, v.At, len(t.Lines), map[bool]string{true: "respected", false: prob}[prob == ""], around(t, v.At, 25, 3), tail(cleanTLC(v.Output), 600))
			}
			break
		}
		if out.Fatal { // a watchdog fired: the recording (a prefix of the run) was still judged; the process is not reused
			r.Set("stopped_after_hang", true)
			break
		}
	}
	if hooks == 0 && (p.Replay != nil || (len(p.Rounds) > 0 && p.Rounds[0] == 0)) {
		r.Machinery("C19 hooks not present in /repo: no verifhook.Event call site fired, trace validation skipped (apply harness/drivers/c19/hooks.diff); the stress and watchdog part ran")
	}
	r.Add("trace_validation_states", tlcStates)
	for k, v := range teardowns {
		r.Add("teardown_"+strings.ReplaceAll(k, "-", "_"), v)
	}
}

// spawn runs the plan in a child process of this binary and merges what it found.
func spawn(r *ev.Run, p *plan) {
	dir, err := os.MkdirTemp("", "c19-child-")
	if err != nil {
		r.Machinery("%v", err)
		return
	}
	defer os.RemoveAll(dir)
	exe, _ := os.Executable()
	pj, _ := json.Marshal(p)
	part := filepath.Join(dir, "partial.json")
	cmd := exec.Command(exe, "C19", p.Tier)
	cmd.Env = append(os.Environ(), "C19_CHILD="+string(pj), "VERIF_PARTIAL="+part, "GOTRACEBACK=all")
	outb, runErr := cmd.CombinedOutput()
	b, err := os.ReadFile(part)
	if err != nil {
		out := string(outb)
		first := "process died"
		for _, ln := range strings.Split(out, "\n") {
			if strings.HasPrefix(ln, "fatal error:") || strings.HasPrefix(ln, "panic:") {
				first = ln
				break
			}
		}
		if strings.HasPrefix(first, "fatal error:") || strings.HasPrefix(first, "panic:") {
			r.Violate("server-crash/"+strings.TrimSpace(first), fmt.Sprintf("the process running the server under stress died (%v):\n%s", runErr, tail(out, 12000)),
				replayObj{Seed: p.Seed, How: "rounds " + fmt.Sprint(p.Rounds)})
		} else {
			r.Machinery("stress child produced no result (%v): %s", runErr, tail(out, 3000))
		}
		return
	}
	var pt ev.Partial
	if err := json.Unmarshal(b, &pt); err != nil {
		r.Machinery("stress child: %v", err)
		return
	}
	r.Merge(&pt)
}

// ---- optional: the race detector (outside what the specification decides) ----------

var reRaceBlock = regexp.MustCompile(`(?s)WARNING: DATA RACE\n(.*?)\n==================`)

func raceStep(r *ev.Run) {
	hdir := filepath.Join(ev.Root(), "harness")
	cmd := exec.Command("go", "test", "-race", "-tags", "verif", "-count=1", "-run", "TestC19Race", "-timeout", "12m", "./drivers/c19/")
	cmd.Dir = hdir
	cmd.Env = append(os.Environ(), "C19_RACE_SEED="+fmt.Sprint(ev.Seed()), "GORACE=halt_on_error=0")
	start := time.Now()
	out, err := cmd.CombinedOutput()
	s := string(out)
	blocks := reRaceBlock.FindAllStringSubmatch(s, -1)
	info := map[string]interface{}{"wall_s": time.Since(start).Seconds(), "reports": len(blocks),
		"note": "go test -race on the stress of race_test.go: incidental instrumentation; data-race freedom is outside what GluonLocks decides (DESIGN.md section 9)"}
	if len(blocks) == 0 && err != nil && !strings.Contains(s, "DATA RACE") {
		info["not_run"] = tail(s, 1500)
		r.Set("race_detector", info)
		if !strings.Contains(s, "--- FAIL") {
			r.Machinery("go test -race could not be run: %v\n%s", err, tail(s, 1500))
		}
		return
	}
	seen := map[string]bool{}
	hookInduced := 0
	for _, b := range blocks {
		// the two conflicting accesses: first gluon frame of each
		var tops []string
		for _, part := range strings.Split(b[1], "\n\n") {
			head := strings.TrimSpace(strings.SplitN(strings.TrimSpace(part), "\n", 2)[0])
			if !(strings.HasPrefix(head, "Write at") || strings.HasPrefix(head, "Read at") || strings.HasPrefix(head, "Previous write at") || strings.HasPrefix(head, "Previous read at")) {
				continue
			}
			for _, ln := range strings.Split(part, "\n") {
				t := strings.TrimSpace(ln)
				if strings.HasPrefix(t, "github.com/ProtonMail/gluon") && !strings.HasPrefix(t, "github.com/ProtonMail/gluon/verif/") {
					if i := strings.LastIndex(t, "("); i > 0 {
						t = t[:i]
					}
					tops = append(tops, strings.TrimPrefix(t, "github.com/ProtonMail/gluon/"))
					break
				}
			}
		}
		if len(tops) == 0 {
			continue
		}
		induced := false
		for _, t := range tops {
			if strings.HasSuffix(t, ".String") { // update.String() is evaluated for the verif hooks / debug log only
				induced = true
			}
		}
		if induced {
			hookInduced++
			continue
		}
		sort.Strings(tops)
		top := strings.Join(tops, " <-> ")
		if seen[top] {
			continue
		}
		seen[top] = true
		r.Violate("data-race/"+top, "the race detector reports (outside what the specification decides; shown because it fails the run):\n"+tail(b[1], 5000),
			replayObj{Seed: ev.Seed(), How: "go test -race -tags verif -run TestC19Race ./drivers/c19/ in /verif/harness"})
	}
	info["reports_on_string_formatting_for_hooks"] = hookInduced
	keys := make([]string, 0, len(seen))
	for k := range seen {
		keys = append(keys, k)
	}
	sort.Strings(keys)
	info["top_frames"] = keys
	r.Set("race_detector", info)
}

// ---- entry --------------------------------------------------------------------------

func run(r *ev.Run, tier, replay string) {
	if pj := os.Getenv("C19_CHILD"); pj != "" {
		var p plan
		if err := json.Unmarshal([]byte(pj), &p); err != nil {
			r.Machinery("child plan: %v", err)
			return
		}
		child(r, &p)
		return
	}
	seed := ev.Seed()
	if replay != "" {
		b, err := os.ReadFile(replay)
		if err != nil {
			r.Machinery("replay: %v", err)
			return
		}
		var rp struct {
			Replay replayObj `json:"replay"`
		}
		if err := json.Unmarshal(b, &rp); err != nil || rp.Replay.Scenario == nil {
			r.Machinery("replay file has no scenario (a data-race or crash finding is replayed by its own command): %v", err)
			return
		}
		r.Set("states", int64(1))
		r.Set("transitions", int64(1))
		spawn(r, &plan{Seed: rp.Replay.Seed, Tier: tier, Replay: rp.Replay.Scenario, Repeat: 8, Validate: 2})
		return
	}
	rounds, validateN, par := 6, 6, 3
	if tier == "thorough" {
		rounds, validateN, par = 40, 20, 3
	}
	var wg sync.WaitGroup
	modelsOK := false
	wg.Add(1)
	go func() { defer wg.Done(); modelsOK = runModels(r, tier, par) }()
	// the stress: two child processes (a hang or crash in one does not take the other's rounds with it)
	half := rounds / 2
	var a, b []int
	for k := 0; k < rounds; k++ {
		if k < half {
			a = append(a, k)
		} else {
			b = append(b, k)
		}
	}
	// one more child for the round that cancels the Serve context before Close (a hang there costs its watchdog only)
	// ... and one for the directed rounds (the concrete counterparts of the as-code witnesses of the specification)
	for _, rs := range [][]int{a, b, {9000}, directedRounds} {
		wg.Add(1)
		go func(rs []int) {
			defer wg.Done()
			spawn(r, &plan{Seed: seed, Tier: tier, Rounds: rs, Validate: (validateN + 1) / 2})
		}(rs)
	}
	wg.Wait()
	if tier == "thorough" {
		raceStep(r)
	}
	_ = modelsOK
	r.Set("exhaustive", true)
	r.Set("rule", "states/transitions = sum over the exhaustive TLC runs of GluonLocks that must finish cleanly (intended design; the as-code and seeded configurations are listed under expected_violations with the violation TLC reports); "+
		"one evaluation = one client session of a stress round on the real server, distinct by (command script, way of leaving, order of the application's RemoveUser/Close calls); "+
		"traces_validated_against_impl = recordings of whole rounds (hook events in the order of a global counter) that TLC accepted as behaviours of GluonLocks with the switches of the pinned code and on which it evaluated LockOrderCode, OnlyOwner, StatesCounted, NoUseAfterDbClose, DbClosedMeansNoStates")
	r.Assumptions = []string{
		"GluonLocks: writes to a connection never block (a client that stops reading without disconnecting is outside the model); errors of the database or the connector are not modelled",
		"bounded model: the environment's first moves are made in Init (Eager) - the goroutine consuming each may do so arbitrarily late; multi-session configurations collapse single-lock critical sections without other shared operations into one step (Lipton reduction); the one-session configurations keep every step separate",
		"liveness is checked under weak fairness of every goroutine step (one fairness condition on the disjunction: the bounded model has no cycle besides stuttering), the application eventually calling Close and closing its listener afterwards; nothing is assumed about clients",
		"trace validation binds the order of lock, wait-group, channel-close and lifecycle operations of gluon's goroutines; clients, connector, listener and queue contents are open (OpenEnv); goroutines outside the model (FETCH workers, publisher, watcher pumps) are projected away",
		"the application drains Server.GetErrorCh until it is closed and closes its listener after Close returned",
		"watchdogs: 30 s per client call, 60 s for Close / RemoveUser, 10 s for goroutines to disappear after Close; data races are reported by the optional go test -race step only and are outside what the specification decides",
	}
}
