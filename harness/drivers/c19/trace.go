package c19

import (
	"encoding/json"
	"fmt"
	"os"
	"path/filepath"
	"regexp"
	"strconv"
	"strings"
	"time"

	"github.com/ProtonMail/gluon/verif/pkg/ev"
	"github.com/ProtonMail/gluon/verif/pkg/tlc"
)

type traceVerdict struct {
	Accepted  bool
	Invariant string // invariant of GluonLocks violated on the observed events ("" = none)
	At        int    // 1-based line of trace.ndjson: first event that could not be followed / last consumed before the invariant failed
	States    int64
	Wall      time.Duration
	Problem   string // tool problem: not a verdict
	Output    string
}

func quoteSet(xs []string) string {
	q := make([]string, len(xs))
	for i, x := range xs {
		q[i] = strconv.Quote(x)
	}
	return "{" + strings.Join(q, ", ") + "}"
}

// traceCfg: the switches of the pinned code, clients/connector/listener open, every constant a string.
func traceCfg(t *translated, skip map[string]bool) string {
	users, sessions := t.Users, t.Sessions
	if len(users) == 0 {
		users = []string{"u1"}
	}
	if len(sessions) == 0 {
		sessions = []string{"s1"}
	}
	var invs []string
	for _, i := range []string{"TypeOK", "LockOrderCode", "StatesCounted", "NoUseAfterDbClose", "DbClosedMeansNoStates", "OnlyOwner"} {
		if !skip[i] {
			invs = append(invs, i)
		}
	}
	// the deviation switches describe the pinned code; once a deviation is repaired in /repo its switch has to flip
	// (C19_FIXED=FixCapsOrder,FixIDChanged,... until the driver is updated)
	// repaired in /repo: FixReleaseCtx (9d0fbaa), FixAcceptSelect (47c03f4), FixQueueDiscard (7b48c68), FixIDChanged (debb5bd);
	// FixPeek is known finding peek (removeState reads other sessions' snapshots); FixCapsOrder is the latent order of
	// handleCapability, which LockOrderCode tolerates and the deadlock check covers
	sw := map[string]string{"FixAcceptSelect": "TRUE", "FixQueueDiscard": "TRUE", "FixIDChanged": "TRUE", "FixPeek": "FALSE",
		"FixCapsOrder": "FALSE", "FixReleaseCtx": "TRUE"}
	for _, f := range strings.Split(os.Getenv("C19_FIXED"), ",") {
		if _, ok := sw[f]; ok {
			sw[f] = "TRUE"
		}
	}
	return `CONSTANTS
  Users = ` + quoteSet(users) + `
  Sessions = ` + quoteSet(sessions) + `
  LoginTo <- LT_Any
  PreLogged <- PL_None
  CmdKinds = {}
  MaxCmds = 0
  UpdKinds = {}
  MaxUpdates = 0
  ChanCap = 1
  Removable = ` + quoteSet(users) + `
  LateDial = TRUE
  CtxCancel = TRUE
  FreeSections = TRUE
  WriterPref = FALSE
  Labels = TRUE
  OpenEnv = TRUE
  Eager = FALSE
  Coarse = FALSE
  FixAcceptSelect = ` + sw["FixAcceptSelect"] + `
  FixQueueDiscard = ` + sw["FixQueueDiscard"] + `
  FixIDChanged = ` + sw["FixIDChanged"] + `
  FixPeek = ` + sw["FixPeek"] + `
  FixCapsOrder = ` + sw["FixCapsOrder"] + `
  FixReleaseCtx = ` + sw["FixReleaseCtx"] + `
  Bug = "none"
INIT TraceInit
NEXT TraceNext
VIEW TraceView
CONSTRAINT TraceConstraint
INVARIANTS ` + strings.Join(invs, " ") + `
POSTCONDITION TraceReport
CHECK_DEADLOCK FALSE
`
}

var reL = regexp.MustCompile(`(?m)^/\\ l = (\d+)`)
var reLJSON = regexp.MustCompile(`"l":\s*(\d+)`)

// validate asks TLC whether the recording is a behaviour of GluonLocks (switches of the pinned code).
func validate(t *translated, timeout time.Duration, skip map[string]bool) traceVerdict {
	var hw, ln int64 = -1, -1
	res, err := tlc.Run(tlc.Options{
		SpecDir: filepath.Join(ev.Root(), "spec"), Module: "GluonLocksTrace", CfgText: traceCfg(t, skip),
		Workers: 1, Deque: true, Timeout: timeout, KeepOutput: true, HeapGB: 4, DumpTrace: "ce.json",
		ExtraFiles: map[string][]byte{"trace.ndjson": t.ndjson()},
		OnJSON: func(raw []byte) {
			var x struct {
				Highwater *int64 `json:"highwater"`
				Len       int64  `json:"len"`
			}
			if json.Unmarshal(raw, &x) == nil && x.Highwater != nil {
				hw, ln = *x.Highwater, x.Len
			}
		},
	})
	if err != nil {
		return traceVerdict{Problem: err.Error()}
	}
	v := traceVerdict{States: res.Distinct, Wall: res.Wall, Output: tail(res.Output, 6000)}
	switch {
	case res.TimedOut:
		v.Problem = "TLC timed out on the trace"
	case res.ViolationKind == "invariant":
		v.Invariant = res.Violated
		// the violating state is the last one of the dumped counterexample; l is one past the last consumed event
		if m := reLJSON.FindAllSubmatch(res.TraceJSON, -1); len(m) > 0 {
			n, _ := strconv.Atoi(string(m[len(m)-1][1]))
			v.At = n - 1
		} else if m := reL.FindAllStringSubmatch(res.Output, -1); len(m) > 0 {
			n, _ := strconv.Atoi(m[len(m)-1][1])
			v.At = n - 1
		}
	case res.Violated != "":
		v.Problem = "unexpected violation of " + res.Violated
	case hw < 0:
		v.Problem = "TLC did not report the high-water mark: " + res.Error
	case hw == ln+1:
		if res.Error != "" && !res.PostFalse {
			v.Problem = "TLC error on an accepted trace: " + res.Error
		}
		v.Accepted = true
	default:
		v.At = int(hw)
	}
	return v
}

// validateFree judges a recording that GluonLocksTrace could not follow by the lock discipline alone (GluonLocksFree.tla):
// "" = the hierarchy is respected along the whole recording; otherwise the violated invariant and the event.
func validateFree(t *translated, timeout time.Duration) (inv string, at int, problem string) {
	cfg := "INIT Init\nNEXT Next\nCONSTRAINT Mark\nINVARIANTS LockOrderRespected\nPOSTCONDITION Report\nCHECK_DEADLOCK FALSE\n"
	consumed, ln := int64(-1), int64(0)
	res, err := tlc.Run(tlc.Options{
		SpecDir: filepath.Join(ev.Root(), "spec"), Module: "GluonLocksFree", CfgText: cfg,
		Workers: 1, Timeout: timeout, KeepOutput: true, HeapGB: 4, DumpTrace: "ce.json",
		ExtraFiles: map[string][]byte{"trace.ndjson": t.ndjson()},
		OnJSON: func(raw []byte) {
			var x struct {
				Consumed *int64 `json:"consumed"`
				Len      int64  `json:"len"`
			}
			if json.Unmarshal(raw, &x) == nil && x.Consumed != nil {
				consumed, ln = *x.Consumed, x.Len
			}
		},
	})
	switch {
	case err != nil:
		return "", 0, err.Error()
	case res.TimedOut:
		return "", 0, "TLC timed out on the trace (GluonLocksFree)"
	case res.ViolationKind == "invariant":
		if m := reLJSON.FindAllSubmatch(res.TraceJSON, -1); len(m) > 0 {
			n, _ := strconv.Atoi(string(m[len(m)-1][1]))
			at = n - 1
		} else if m := reL.FindAllStringSubmatch(res.Output, -1); len(m) > 0 {
			n, _ := strconv.Atoi(m[len(m)-1][1])
			at = n - 1
		}
		return res.Violated, at, ""
	case res.Violated != "" || consumed != ln || consumed < 0:
		return "", 0, fmt.Sprintf("GluonLocksFree did not consume the recording (violated=%q error=%q consumed=%d of %d)", res.Violated, res.Error, consumed, ln)
	}
	return "", 0, ""
}

func tail(s string, n int) string {
	if len(s) > n {
		return s[len(s)-n:]
	}
	return s
}

// around renders the events next to line `at` (1-based) of the translated trace.
func around(t *translated, at, before, after int) string {
	var b strings.Builder
	for i := at - before; i <= at+after; i++ {
		if i < 1 || i > len(t.Lines) {
			continue
		}
		l := t.Lines[i-1]
		mark := "  "
		if i == at {
			mark = "=>"
		}
		fmt.Fprintf(&b, "%s %5d  %s:%s  %s  %s\n", mark, i, l.G, l.ID, l.Op, l.Obj)
	}
	return b.String()
}
