package c19

import (
	"context"
	"fmt"
	"math/rand"
	"net"
	"regexp"
	"runtime"
	"sort"
	"strings"
	"sync"
	"sync/atomic"
	"time"

	"github.com/ProtonMail/gluon/imap"
	"github.com/ProtonMail/gluon/verif/pkg/fixture"
	"github.com/ProtonMail/gluon/verif/pkg/wire"
)

// ---- scenario ----------------------------------------------------------------

// A scenario is everything random about one round, derived from (seed, round) alone.
type scenario struct {
	Seed      int64      `json:"seed"`
	Round     int        `json:"round"`
	Users     int        `json:"users"`
	Clients   []clientSc `json:"clients"`
	Updates   []string   `json:"updates"`    // per update: kind
	Shutdown  []shutStep `json:"shutdown"`   // application calls, each fired when the global step counter reaches At
	LateDial  bool       `json:"late_dial"`  // a client keeps dialing while the server shuts down
	BigBox    bool       `json:"big_box"`    // a mailbox with large messages exists (slow-reader ending)
	CtxCancel bool       `json:"ctx_cancel"` // the clients are served through a second listener whose Serve context the application cancels
	Flood     int        `json:"flood"`      // further flag updates per user submitted in a row (while slow readers keep a session blocked)
	WaitFlood bool       `json:"wait_flood"` // the application's calls start only after the flood (directed rounds)
	Stream    bool       `json:"stream"`     // the connector keeps handing updates to gluon without waiting for their acknowledgement until the application's calls have returned
	Directed  string     `json:"directed"`   // name of the directed scenario ("" = random round)
}

type clientSc struct {
	User  int      `json:"user"`
	Steps []string `json:"steps"`
	End   string   `json:"end"` // how the client leaves
}

type shutStep struct {
	Call string `json:"call"` // "close" | "remove:<user index>" | "cancel" (the Serve context)
	At   int    `json:"at"`
	Par  bool   `json:"parallel"` // do not wait for the previous call to return
}

var stepKinds = []string{"noop", "capability", "select", "examine", "store", "fetch", "search", "append", "create", "list",
	"status", "copy", "expunge", "idle", "id", "login-again", "close-box", "move", "uidfetch", "subscribe", "purge"}

var endings = []string{"logout", "drop", "drop-inflight", "drop-mid-literal", "drop-in-idle", "drop-before-login", "slow-reader", "stay", "stay-idle"}

// Directed rounds: the concrete counterparts of the design-level witnesses TLC finds in the as-code / bug configurations of
// GluonLocks (a round number >= 9100 selects one).
//
//	9100 queue   a session that is blocked writing to a client that does not read gets more than 32 updates queued and is
//	             then dropped; RemoveUser, Close (GluonLocks.ascode.queue: the pump goroutine must not be left behind)
//	9101 stream  RemoveUser and Close while the connector keeps delivering updates (the forwarder must not block for ever
//	             on an update nobody will take: RemoveUserReturns / CloseReturns)
//	9102 purge   the remote deletes a message that sessions still show; the sessions leave one after the other while another
//	             one keeps publishing changes: the state teardown that purges the message (removeState) against the
//	             publication of updates (lock order statesLock / database)
var directedRounds = []int{9100, 9101, 9102}

func directed(seed int64, round int) *scenario {
	switch round {
	case 9100:
		return &scenario{Seed: seed, Round: round, Users: 1, Directed: "queue", BigBox: true, Flood: 45, WaitFlood: true,
			Clients:  []clientSc{{User: 0, Steps: []string{"noop"}, End: "slow-reader"}, {User: 0, Steps: []string{"select", "noop"}, End: "stay"}},
			Updates:  []string{"flags"},
			Shutdown: []shutStep{{Call: "remove:0", At: 0}, {Call: "close", At: 0}}}
	case 9102:
		return &scenario{Seed: seed, Round: round, Users: 1, Directed: "purge",
			Clients: []clientSc{{User: 0, Steps: []string{"select", "noop", "noop", "noop"}, End: "logout"},
				{User: 0, Steps: []string{"select", "store", "store", "store", "store", "store", "store"}, End: "logout"},
				{User: 0, Steps: []string{"select", "noop", "noop", "noop", "noop", "noop"}, End: "drop"}},
			Updates:  []string{"delete-old", "noop", "noop"},
			Shutdown: []shutStep{{Call: "remove:0", At: 22}, {Call: "close", At: 22}}}
	case 9101:
		return &scenario{Seed: seed, Round: round, Users: 1, Directed: "stream", Stream: true,
			Clients:  []clientSc{{User: 0, Steps: []string{"select", "noop"}, End: "stay"}},
			Updates:  []string{"flags", "noop"},
			Shutdown: []shutStep{{Call: "remove:0", At: 3}, {Call: "close", At: 3}}}
	}
	return nil
}

func makeScenario(seed int64, round int, tier string) *scenario {
	if d := directed(seed, round); d != nil {
		return d
	}
	rnd := rand.New(rand.NewSource(seed*1000003 + int64(round)*7919))
	sc := &scenario{Seed: seed, Round: round, Users: 1 + rnd.Intn(2)}
	n := 3 + rnd.Intn(6) // 3..8 sessions
	maxSteps := 6
	if tier == "thorough" {
		maxSteps = 12
	}
	total := 0
	for i := 0; i < n; i++ {
		c := clientSc{User: rnd.Intn(sc.Users)}
		k := 1 + rnd.Intn(maxSteps)
		for j := 0; j < k; j++ {
			c.Steps = append(c.Steps, stepKinds[rnd.Intn(len(stepKinds))])
		}
		c.End = endings[rnd.Intn(len(endings))]
		if c.End == "slow-reader" {
			sc.BigBox = true
			sc.Flood = 45
		}
		total += len(c.Steps) + 2
		sc.Clients = append(sc.Clients, c)
	}
	nu := 2 + rnd.Intn(10)
	kinds := []string{"flags", "create", "idchg", "move", "mailbox", "noop", "delete", "flags", "create", "idchg"}
	for i := 0; i < nu; i++ {
		sc.Updates = append(sc.Updates, kinds[rnd.Intn(len(kinds))])
	}
	// the application's calls, in random order at random moments
	switch rnd.Intn(5) {
	case 0:
		sc.Shutdown = []shutStep{{Call: "close", At: rnd.Intn(total + 1)}}
	case 1:
		a := rnd.Intn(total + 1)
		sc.Shutdown = []shutStep{{Call: "remove:0", At: a}, {Call: "close", At: a + rnd.Intn(total-a+1)}}
	case 2:
		a := rnd.Intn(total + 1)
		sc.Shutdown = []shutStep{{Call: "remove:0", At: a}, {Call: "close", At: a, Par: true}}
	case 3:
		a := rnd.Intn(total + 1)
		sc.Shutdown = []shutStep{{Call: "close", At: a}, {Call: "remove:0", At: a, Par: true}}
	default:
		a := rnd.Intn(total + 1)
		sc.Shutdown = []shutStep{{Call: fmt.Sprintf("remove:%d", sc.Users-1), At: a}, {Call: "remove:0", At: a + rnd.Intn(3), Par: rnd.Intn(2) == 0},
			{Call: "close", At: a + rnd.Intn(total-a+1)}}
	}
	sc.LateDial = rnd.Intn(3) == 0
	if round >= 9000 { // the rounds that stop serving the way Serve documents it: cancel its context, then Close
		a := rnd.Intn(total + 1)
		sc.CtxCancel = true
		sc.Shutdown = []shutStep{{Call: "cancel", At: a}, {Call: "close", At: a + rnd.Intn(total-a+1)}}
	}
	return sc
}

func (sc *scenario) describe() string {
	var b strings.Builder
	fmt.Fprintf(&b, "seed %d round %d: %d user(s), %d clients, %d connector updates", sc.Seed, sc.Round, sc.Users, len(sc.Clients), len(sc.Updates))
	for i, c := range sc.Clients {
		fmt.Fprintf(&b, "\n  client %d (user %d): %s; leaves by %s", i+1, c.User, strings.Join(c.Steps, " "), c.End)
	}
	for _, s := range sc.Shutdown {
		par := ""
		if s.Par {
			par = " (concurrently with the previous call)"
		}
		fmt.Fprintf(&b, "\n  application: %s after %d client steps%s", s.Call, s.At, par)
	}
	if sc.LateDial {
		b.WriteString("\n  a client keeps dialing while the server shuts down")
	}
	if sc.CtxCancel {
		b.WriteString("\n  the clients connect to a listener served with Server.Serve(ctx, l); `cancel` cancels that ctx")
	}
	if sc.Directed != "" {
		fmt.Fprintf(&b, "\n  directed scenario %q", sc.Directed)
	}
	if sc.Stream {
		b.WriteString("\n  the connector keeps handing updates to gluon (not waiting for acknowledgements) until RemoveUser / Close have returned")
	}
	if sc.Flood > 0 {
		fmt.Fprintf(&b, "\n  after its updates the connector submits %d more flag updates per user in a row; slow readers leave after that", sc.Flood)
	}
	return b.String()
}

// ---- findings of a round -------------------------------------------------------

type finding struct {
	Key, Detail string
}

type roundOut struct {
	Findings   []finding
	Events     []rawEvent
	Commands   int64 // client calls that got a completion
	Flooded    int64
	Teardowns  map[string]int
	Closed     bool // Close returned
	Fatal      bool // a watchdog fired: the process is not usable for further rounds
	Leaked     int
	Goroutines int
}

const (
	cmdWatchdog   = 30 * time.Second
	closeWatchdog = 60 * time.Second
	leakWait      = 10 * time.Second
)

func allStacks() string {
	buf := make([]byte, 1<<20)
	for {
		n := runtime.Stack(buf, true)
		if n < len(buf) {
			return string(buf[:n])
		}
		buf = make([]byte, 2*len(buf))
	}
}

var reGoroutine = regexp.MustCompile(`^goroutine (\d+) \[`)

// gluonGoroutines returns the goroutines (id -> stack) that run or were created by gluon code and are not
// goroutines of the harness itself.
func gluonGoroutines() map[string]string {
	out := map[string]string{}
	for _, blk := range strings.Split(allStacks(), "\n\n") {
		m := reGoroutine.FindStringSubmatch(blk)
		if m == nil {
			continue
		}
		gl, own := false, false
		for _, ln := range strings.Split(blk, "\n") {
			if strings.HasPrefix(ln, "\t") {
				continue
			}
			f := strings.TrimPrefix(ln, "created by ")
			if strings.HasPrefix(f, "github.com/ProtonMail/gluon/verif/") {
				own = true
			} else if strings.HasPrefix(f, "github.com/ProtonMail/gluon") {
				gl = true
			}
		}
		if gl && !own {
			out[m[1]] = blk
		}
	}
	return out
}

func topGluonFrame(stack string) string {
	for _, ln := range strings.Split(stack, "\n") {
		if strings.HasPrefix(ln, "github.com/ProtonMail/gluon") {
			f := ln
			if i := strings.LastIndex(f, "("); i > 0 {
				f = f[:i]
			}
			return strings.TrimPrefix(f, "github.com/ProtonMail/gluon")
		}
	}
	for _, ln := range strings.Split(stack, "\n") {
		if strings.HasPrefix(ln, "created by github.com/ProtonMail/gluon") {
			f := strings.TrimPrefix(ln, "created by github.com/ProtonMail/gluon")
			if i := strings.Index(f, " in goroutine"); i > 0 {
				f = f[:i]
			}
			return "created-by" + f
		}
	}
	return "?"
}

// ---- the round ---------------------------------------------------------------

type roundEnv struct {
	sc        *scenario
	srv       *fixture.Server
	out       *roundOut
	mu        sync.Mutex
	progress  int64
	shutting  int32              // an application call that tears sessions down has begun
	userDown  []int32            // per user: RemoveUser / Close began
	msgIDs    [][]imap.MessageID // per user: remote ids of the messages in box1
	internal  [][]imap.InternalMessageID
	boxIDs    [][]imap.MailboxID
	listening int32
	floodDone chan struct{}
	slowSent  int32 // slow readers that have sent their FETCH
	addr      string
	cancel    context.CancelFunc
}

func (e *roundEnv) find(key, detail string) {
	e.mu.Lock()
	defer e.mu.Unlock()
	e.out.Findings = append(e.out.Findings, finding{key, detail})
}

func (e *roundEnv) step() { atomic.AddInt64(&e.progress, 1) }

func lit(tag string, size int) []byte {
	body := strings.Repeat("0123456789abcdef0123456789abcdef0123456789abcdef0123456789abcde\r\n", size/64+1)
	return []byte("From: a@b.c\r\nTo: d@e.f\r\nDate: Mon, 7 Feb 1994 21:52:25 -0800\r\nSubject: " + tag + "\r\n\r\n" + body[:size] + "\r\n")
}

var reGluonID = regexp.MustCompile(`(?i)X-Pm-Gluon-Id: ([0-9a-fA-F-]+)`)

// setup creates the mailboxes and messages of every user through the connector.
func (e *roundEnv) setup() error {
	for ui, u := range e.srv.Users {
		var boxes []imap.MailboxID
		for _, b := range []string{"box1", "box2", "big"} {
			if b == "big" && !e.sc.BigBox {
				continue
			}
			id := imap.MailboxID(fmt.Sprintf("rb-%s", b))
			if err := u.Conn.Submit(imap.NewMailboxCreated(u.Conn.NewMailbox(string(id), b)), 20*time.Second); err != nil {
				return fmt.Errorf("create %s: %w", b, err)
			}
			boxes = append(boxes, id)
		}
		var ids []imap.MessageID
		mk := func(id string, box imap.MailboxID, size int) error {
			l := lit(id, size)
			pm, err := imap.NewParsedMessage(l)
			if err != nil {
				return err
			}
			return u.Conn.Submit(imap.NewMessagesCreated(false, &imap.MessageCreated{
				Message: imap.Message{ID: imap.MessageID(id), Flags: imap.NewFlagSet(), Date: time.Unix(760000000, 0)},
				Literal: l, MailboxIDs: []imap.MailboxID{box}, ParsedMessage: pm}), 20*time.Second)
		}
		for i := 0; i < 6; i++ {
			id := fmt.Sprintf("m%d-%d", ui, i)
			if err := mk(id, boxes[0], 300); err != nil {
				return fmt.Errorf("message: %w", err)
			}
			ids = append(ids, imap.MessageID(id))
		}
		if e.sc.BigBox {
			for i := 0; i < 64; i++ {
				if err := mk(fmt.Sprintf("big%d-%d", ui, i), boxes[2], 512*1024); err != nil {
					return fmt.Errorf("big message: %w", err)
				}
			}
		}
		// internal ids (for MessageIDChanged) from the X-Pm-Gluon-Id header
		c, err := wire.Dial(e.addr)
		if err != nil {
			return err
		}
		c.Login(u.Name, u.Pass)
		c.Cmd("EXAMINE box1")
		res := c.Cmd("FETCH 1:* (BODY.PEEK[HEADER])")
		var internal []imap.InternalMessageID
		for _, l := range res.Untagged {
			for _, b := range l.Lits {
				if m := reGluonID.FindSubmatch(b); m != nil {
					if iid, err := imap.InternalMessageIDFromString(string(m[1])); err == nil {
						internal = append(internal, iid)
					}
				}
			}
		}
		c.Cmd("LOGOUT")
		c.Close()
		e.msgIDs = append(e.msgIDs, ids)
		e.internal = append(e.internal, internal)
		e.boxIDs = append(e.boxIDs, boxes)
	}
	return nil
}

// call runs one client interaction under the watchdog and classifies the outcome.
func (e *roundEnv) call(ci int, what string, f func() wire.Result) (wire.Result, bool) {
	res := f()
	e.step()
	switch {
	case res.TimedOut:
		key := "command-hang/" + what
		if atomic.LoadInt32(&e.shutting) != 0 {
			key = "command-hang-during-shutdown/" + what
		}
		e.find(key, fmt.Sprintf("client %d: %s got neither a completion nor a closed connection within %v\n%s\n\ngoroutines:\n%s",
			ci+1, what, cmdWatchdog, e.sc.describe(), allStacks()))
		return res, false
	case res.Closed:
		return res, false
	}
	atomic.AddInt64(&e.out.Commands, 1)
	return res, true
}

func (e *roundEnv) client(ci int, c clientSc, rnd *rand.Rand, wg *sync.WaitGroup) {
	defer wg.Done()
	u := e.srv.Users[c.User]
	teardown := func(k string) {
		e.mu.Lock()
		e.out.Teardowns[k]++
		e.mu.Unlock()
	}
	cl, err := wire.Dial(e.addr)
	if err != nil {
		// refused or no greeting: only legitimate once the application began to shut down
		if atomic.LoadInt32(&e.shutting) == 0 {
			e.find("no-greeting", fmt.Sprintf("client %d: %v while the server was not shutting down\n%s", ci+1, err, e.sc.describe()))
		}
		for range c.Steps {
			e.step()
		}
		e.step()
		e.step()
		teardown("never-connected")
		return
	}
	cl.Timeout = cmdWatchdog
	defer cl.Close()
	alive := true
	if c.End == "drop-before-login" {
		e.step()
		for range c.Steps {
			e.step()
		}
		e.step()
		teardown(c.End)
		return
	}
	_, alive = e.call(ci, "LOGIN", func() wire.Result { return cl.Login(u.Name, u.Pass) })
	selected := ""
	for _, st := range c.Steps {
		if !alive {
			e.step()
			continue
		}
		box := []string{"box1", "box2", "INBOX"}[rnd.Intn(3)]
		if e.sc.Directed == "purge" {
			box = "box1" // where the message the remote deletes is
		}
		switch st {
		case "noop":
			_, alive = e.call(ci, "NOOP", func() wire.Result { return cl.Cmd("NOOP") })
		case "capability":
			_, alive = e.call(ci, "CAPABILITY", func() wire.Result { return cl.Cmd("CAPABILITY") })
		case "id":
			_, alive = e.call(ci, "ID", func() wire.Result { return cl.Cmd(`ID ("name" "c19")`) })
		case "login-again":
			_, alive = e.call(ci, "LOGIN", func() wire.Result { return cl.Login(u.Name, u.Pass) })
		case "select":
			_, alive = e.call(ci, "SELECT", func() wire.Result { return cl.Cmd("SELECT " + box) })
			selected = box
		case "examine":
			_, alive = e.call(ci, "EXAMINE", func() wire.Result { return cl.Cmd("EXAMINE " + box) })
			selected = box
		case "close-box":
			_, alive = e.call(ci, "CLOSE", func() wire.Result { return cl.Cmd("CLOSE") })
			selected = ""
		case "store":
			op := []string{"+FLAGS", "-FLAGS", "FLAGS"}[rnd.Intn(3)]
			fl := []string{`\Seen`, `\Flagged`, `\Deleted`, `\Answered`}[rnd.Intn(4)]
			_, alive = e.call(ci, "STORE", func() wire.Result { return cl.Cmd(fmt.Sprintf("STORE 1:%d %s (%s)", 1+rnd.Intn(4), op, fl)) })
		case "fetch":
			_, alive = e.call(ci, "FETCH", func() wire.Result { return cl.Cmd("FETCH 1:* (UID FLAGS BODY.PEEK[HEADER])") })
		case "uidfetch":
			_, alive = e.call(ci, "UID FETCH", func() wire.Result { return cl.Cmd("UID FETCH 1:* (FLAGS BODY[])") })
		case "search":
			_, alive = e.call(ci, "SEARCH", func() wire.Result { return cl.Cmd("SEARCH UNSEEN") })
		case "copy":
			_, alive = e.call(ci, "COPY", func() wire.Result { return cl.Cmd("COPY 1 box2") })
		case "move":
			_, alive = e.call(ci, "MOVE", func() wire.Result { return cl.Cmd("MOVE 1 box2") })
		case "expunge":
			_, alive = e.call(ci, "EXPUNGE", func() wire.Result { return cl.Cmd("EXPUNGE") })
		case "purge": // removes messages other sessions may still have in their snapshots
			if selected == "" {
				_, alive = e.call(ci, "SELECT", func() wire.Result { return cl.Cmd("SELECT box1") })
				selected = "box1"
			}
			if alive {
				_, alive = e.call(ci, "STORE", func() wire.Result { return cl.Cmd(`STORE 1:2 +FLAGS.SILENT (\Deleted)`) })
			}
			if alive {
				_, alive = e.call(ci, "EXPUNGE", func() wire.Result { return cl.Cmd("EXPUNGE") })
			}
		case "append":
			_, alive = e.call(ci, "APPEND", func() wire.Result { return cl.Append(box, "", lit(fmt.Sprintf("a%d", ci), 200+rnd.Intn(2000))) })
		case "create":
			_, alive = e.call(ci, "CREATE", func() wire.Result { return cl.Cmd(fmt.Sprintf("CREATE c%d-%d", ci, rnd.Intn(1000))) })
		case "list":
			_, alive = e.call(ci, "LIST", func() wire.Result { return cl.Cmd(`LIST "" "*"`) })
		case "status":
			_, alive = e.call(ci, "STATUS", func() wire.Result { return cl.Cmd("STATUS " + box + " (MESSAGES UNSEEN)") })
		case "subscribe":
			_, alive = e.call(ci, "SUBSCRIBE", func() wire.Result { return cl.Cmd("SUBSCRIBE " + box) })
		case "idle":
			alive = e.idle(ci, cl, 1+rnd.Intn(3), true)
		}
	}
	_ = selected
	if !alive {
		e.step()
		teardown("closed-by-server")
		return
	}
	teardown(c.End)
	switch c.End {
	case "logout":
		e.call(ci, "LOGOUT", func() wire.Result { return cl.Cmd("LOGOUT") })
	case "drop":
		e.step()
	case "drop-inflight":
		// the command is written and the connection closed without reading a byte
		_ = cl.Write([]byte("X1 FETCH 1:* (FLAGS BODY[])\r\nX2 STORE 1:* +FLAGS (\\Seen)\r\n"))
		e.step()
	case "drop-mid-literal":
		tag := cl.NextTag()
		_ = cl.Write([]byte(tag + " APPEND box1 {5000}\r\n"))
		// wait for the continuation request, then send a part of the literal only
		if l, err := cl.ReadLine(cmdWatchdog); err == nil && strings.HasPrefix(l.Text, "+") {
			_ = cl.Write([]byte("From: a@b.c\r\nSubject: cut\r\n\r\nhalf"))
		}
		e.step()
	case "drop-in-idle":
		e.idle(ci, cl, 1, false)
	case "slow-reader":
		// a large answer is requested and never read; the server blocks writing while updates keep arriving
		cl.Cmd("SELECT big")
		_ = cl.Write([]byte("S1 FETCH 1:* (BODY[])\r\n"))
		atomic.AddInt32(&e.slowSent, 1)
		e.step()
		select {
		case <-e.floodDone:
		case <-time.After(20 * time.Second):
		}
	case "stay", "stay-idle":
		if c.End == "stay-idle" {
			// idles until the server ends the session
			tag := cl.NextTag()
			_ = cl.Write([]byte(tag + " IDLE\r\n"))
		}
		e.step()
		e.waitServerClose(cl)
	}
}

// idle enters IDLE, takes what arrives for n reads, then ends it with DONE (or just leaves).
func (e *roundEnv) idle(ci int, cl *wire.Client, n int, done bool) bool {
	tag := cl.NextTag()
	if err := cl.Write([]byte(tag + " IDLE\r\n")); err != nil {
		e.step()
		return false
	}
	l, err := cl.ReadLine(cmdWatchdog)
	if err != nil {
		res := wire.Result{}
		if ne, ok := err.(net.Error); ok && ne.Timeout() {
			res.TimedOut = true
		} else {
			res.Closed = true
		}
		_, ok := e.call(ci, "IDLE", func() wire.Result { return res })
		return ok
	}
	if !strings.HasPrefix(l.Text, "+") {
		// NO / BAD (not authenticated): a completion
		e.step()
		atomic.AddInt64(&e.out.Commands, 1)
		return true
	}
	for i := 0; i < n; i++ {
		if _, err := cl.ReadLine(150 * time.Millisecond); err != nil {
			if ne, ok := err.(net.Error); !ok || !ne.Timeout() {
				e.step()
				return false
			}
		}
	}
	if !done {
		e.step()
		return true
	}
	_, ok := e.call(ci, "DONE", func() wire.Result { return cl.Raw(tag, []byte("DONE\r\n")) })
	return ok
}

// waitServerClose reads until the server closes the connection (the application tears the session down).
func (e *roundEnv) waitServerClose(cl *wire.Client) {
	deadline := time.Now().Add(closeWatchdog + cmdWatchdog)
	for time.Now().Before(deadline) {
		if _, err := cl.ReadLine(500 * time.Millisecond); err != nil {
			if ne, ok := err.(net.Error); ok && ne.Timeout() {
				if atomic.LoadInt32(&e.listening) == 0 {
					return
				}
				continue
			}
			return
		}
	}
}

// updater submits the scenario's connector updates for every user, one after the other.
func (e *roundEnv) updater(rnd *rand.Rand, wg *sync.WaitGroup) {
	defer wg.Done()
	defer close(e.floodDone)
	defer func() {
		if e.sc.Flood > 0 {
			// provocation only (no verdict depends on it): give a slow reader's session time to block in its write
			for t := 0; t < 2000 && atomic.LoadInt32(&e.slowSent) == 0 && !e.clientsDone() && atomic.LoadInt32(&e.shutting) == 0; t++ {
				time.Sleep(5 * time.Millisecond)
			}
			time.Sleep(400 * time.Millisecond)
		}
		for k := 0; k < e.sc.Flood; k++ {
			for ui := range e.srv.Users {
				if atomic.LoadInt32(&e.userDown[ui]) != 0 {
					continue
				}
				ids := e.msgIDs[ui]
				fl := imap.NewFlagSet()
				if (k/len(ids))%2 == 0 { // every update changes the flags of its message, so each becomes a state update
					fl = imap.NewFlagSet(imap.FlagFlagged)
				}
				if e.submit(ui, imap.NewMessageFlagsUpdated(ids[k%len(ids)], fl)) == nil {
					atomic.AddInt64(&e.out.Flooded, 1)
				}
			}
		}
	}()
	extra := 0
	for i, k := range e.sc.Updates {
		ui := i % len(e.srv.Users)
		if atomic.LoadInt32(&e.userDown[ui]) != 0 {
			continue
		}
		u := e.srv.Users[ui]
		ids := e.msgIDs[ui]
		var up imap.Update
		switch k {
		case "flags":
			up = imap.NewMessageFlagsUpdated(ids[rnd.Intn(len(ids))], imap.NewFlagSet([]string{imap.FlagSeen, imap.FlagFlagged}[rnd.Intn(2)]))
		case "create":
			extra++
			l := lit(fmt.Sprintf("x%d", extra), 400)
			pm, _ := imap.NewParsedMessage(l)
			up = imap.NewMessagesCreated(false, &imap.MessageCreated{Message: imap.Message{ID: imap.MessageID(fmt.Sprintf("x%d-%d", ui, extra)),
				Flags: imap.NewFlagSet(), Date: time.Unix(760000000, 0)}, Literal: l, MailboxIDs: []imap.MailboxID{e.boxIDs[ui][rnd.Intn(2)]}, ParsedMessage: pm})
		case "idchg":
			if len(e.internal[ui]) == 0 {
				up = imap.NewNoop()
				break
			}
			j := rnd.Intn(len(e.internal[ui]))
			if j >= len(ids) {
				up = imap.NewNoop()
				break
			}
			nid := imap.MessageID(fmt.Sprintf("%s.r%d", ids[j], i))
			up = imap.NewMessageIDChanged(e.internal[ui][j], nid)
			ids[j] = nid
		case "move":
			up = imap.NewMessageMailboxesUpdated(ids[rnd.Intn(len(ids))], []imap.MailboxID{e.boxIDs[ui][rnd.Intn(2)]}, imap.NewFlagSet())
		case "mailbox":
			extra++
			up = imap.NewMailboxCreated(u.Conn.NewMailbox(fmt.Sprintf("rbx-%d-%d", ui, extra), fmt.Sprintf("remote%d", extra)))
		case "delete":
			up = imap.NewMessagesDeleted(imap.MessageID(fmt.Sprintf("x%d-%d", ui, extra)))
		case "delete-old": // a message of the set-up, which the sessions that have its mailbox selected still show
			up = imap.NewMessagesDeleted(ids[0])
		default:
			up = imap.NewNoop()
		}
		err := e.submit(ui, up)
		e.step()
		if err == fixture.ErrNoAck && atomic.LoadInt32(&e.userDown[ui]) == 0 && atomic.LoadInt32(&e.shutting) == 0 {
			e.find("update-hang/"+k, fmt.Sprintf("connector update %d (%s) of user %d was not acknowledged within %v while nothing was shutting down\n%s\n\ngoroutines:\n%s",
				i+1, k, ui, cmdWatchdog, e.sc.describe(), allStacks()))
			return
		}
	}
}

func (e *roundEnv) submit(ui int, up imap.Update) (err error) {
	defer func() {
		if p := recover(); p != nil { // the connector was closed under us (send on closed channel): the user is gone
			err = fmt.Errorf("connector closed")
		}
	}()
	return e.srv.Users[ui].Conn.Submit(up, cmdWatchdog)
}

// application fires the scenario's RemoveUser / Close calls when the step counter reaches their moment.
func (e *roundEnv) application(done chan struct{}) {
	defer close(done)
	var pend sync.WaitGroup
	var fatal int32
	run := func(call string) {
		defer pend.Done()
		ret := make(chan error, 1)
		go func() {
			if call == "close" {
				for i := range e.userDown {
					atomic.StoreInt32(&e.userDown[i], 1)
				}
				atomic.StoreInt32(&e.shutting, 1)
				err := e.srv.Close(closeWatchdog)
				atomic.StoreInt32(&e.listening, 0)
				ret <- err
				return
			}
			if call == "cancel" {
				atomic.StoreInt32(&e.shutting, 1)
				e.cancel()
				ret <- nil
				return
			}
			var ui int
			fmt.Sscanf(call, "remove:%d", &ui)
			atomic.StoreInt32(&e.userDown[ui], 1)
			atomic.StoreInt32(&e.shutting, 1)
			ctx, cancel := context.WithTimeout(context.Background(), 2*closeWatchdog)
			defer cancel()
			err := e.srv.S.RemoveUser(ctx, e.srv.Users[ui].ID, false)
			if err != nil && strings.Contains(err.Error(), "no such user") {
				err = nil
			}
			ret <- err
		}()
		select {
		case err := <-ret:
			if err != nil && strings.Contains(err.Error(), "did not return") {
				atomic.StoreInt32(&fatal, 1)
				e.find("close-hang", fmt.Sprintf("Server.Close did not return within %v\n%s\n\ngoroutines:\n%s", closeWatchdog, e.sc.describe(), allStacks()))
			} else if err != nil {
				e.find("call-error/"+strings.SplitN(call, ":", 2)[0], fmt.Sprintf("%s returned %v\n%s", call, err, e.sc.describe()))
			}
			if call == "close" && err == nil {
				e.out.Closed = true
			}
		case <-time.After(closeWatchdog + 5*time.Second):
			atomic.StoreInt32(&fatal, 1)
			key := "removeuser-hang"
			if call == "close" {
				key = "close-hang"
			}
			e.find(key, fmt.Sprintf("%s did not return within %v\n%s\n\ngoroutines:\n%s", call, closeWatchdog, e.sc.describe(), allStacks()))
		}
	}
	if e.sc.WaitFlood {
		<-e.floodDone
		time.Sleep(300 * time.Millisecond) // provocation only: let the slow reader's connection go away first
	}
	for _, s := range e.sc.Shutdown {
		for atomic.LoadInt64(&e.progress) < int64(s.At) && !e.clientsDone() {
			time.Sleep(time.Millisecond)
		}
		if !s.Par {
			pend.Wait()
		}
		if atomic.LoadInt32(&fatal) != 0 {
			break
		}
		pend.Add(1)
		go run(s.Call)
	}
	pend.Wait()
	if atomic.LoadInt32(&fatal) != 0 {
		e.out.Fatal = true
	}
}

var clientsLeft int64

func (e *roundEnv) clientsDone() bool { return atomic.LoadInt64(&clientsLeft) == 0 }

// lateDialer keeps connecting while the server shuts down (connections that arrive around serve's return).
func (e *roundEnv) lateDialer(wg *sync.WaitGroup) {
	defer wg.Done()
	for atomic.LoadInt32(&e.shutting) == 0 && !e.clientsDone() {
		time.Sleep(time.Millisecond)
	}
	var conns []net.Conn
	for i := 0; i < 400 && atomic.LoadInt32(&e.listening) != 0; i++ {
		c, err := net.DialTimeout("tcp", e.addr, time.Second)
		if err != nil {
			break
		}
		conns = append(conns, c)
		if i%8 == 7 {
			time.Sleep(time.Millisecond)
		}
	}
	for _, c := range conns {
		_ = c.Close()
	}
}

// runRound executes one scenario on a fresh in-process server and returns what the watchdogs saw.
func runRound(sc *scenario, rec *recorder) (*roundOut, error) {
	out := &roundOut{Teardowns: map[string]int{}}
	before := gluonGoroutines()
	if rec != nil {
		rec.start()
	}
	var users []fixture.User
	for i := 0; i < sc.Users; i++ {
		users = append(users, fixture.User{Name: fmt.Sprintf("user%d", i), Pass: "pass"})
	}
	srv, err := fixture.StartServer(fixture.Config{Users: users})
	if err != nil {
		return nil, err
	}
	defer srv.RemoveDir()
	e := &roundEnv{sc: sc, srv: srv, out: out, userDown: make([]int32, sc.Users), listening: 1, floodDone: make(chan struct{}), addr: srv.Addr,
		cancel: func() {}}
	var l2 net.Listener
	if sc.CtxCancel {
		l2, err = net.Listen("tcp", "127.0.0.1:0")
		if err != nil {
			return nil, err
		}
		defer l2.Close()
		ctx2, cancel := context.WithCancel(context.Background())
		defer cancel()
		if err := srv.S.Serve(ctx2, l2); err != nil {
			return nil, err
		}
		e.cancel = cancel
		e.addr = l2.Addr().String()
	}
	// a well-behaved application drains the error channel until it is closed
	go func() {
		for range srv.S.GetErrorCh() {
		}
	}()
	if err := e.setup(); err != nil {
		_ = srv.Close(closeWatchdog)
		return nil, fmt.Errorf("setup: %w", err)
	}
	rnd := rand.New(rand.NewSource(sc.Seed*31 + int64(sc.Round)))
	var cwg, owg sync.WaitGroup
	atomic.StoreInt64(&clientsLeft, int64(len(sc.Clients)))
	for i, c := range sc.Clients {
		cwg.Add(1)
		go func(i int, c clientSc, r *rand.Rand) {
			defer atomic.AddInt64(&clientsLeft, -1)
			e.client(i, c, r, &cwg)
		}(i, c, rand.New(rand.NewSource(rnd.Int63())))
	}
	owg.Add(1)
	go e.updater(rand.New(rand.NewSource(rnd.Int63())), &owg)
	if sc.LateDial {
		owg.Add(1)
		go e.lateDialer(&owg)
	}
	appDone := make(chan struct{})
	if sc.Stream {
		// the remote keeps producing: one update after the other is handed to gluon's update channel, nobody waits for Done
		owg.Add(1)
		go func() {
			defer owg.Done()
			ids := e.msgIDs[0]
			for k := 0; ; k++ {
				fl := imap.NewFlagSet()
				if k%2 == 0 {
					fl = imap.NewFlagSet(imap.FlagFlagged)
				}
				var up imap.Update = imap.NewMessageFlagsUpdated(ids[k%len(ids)], fl)
				if k%3 == 2 {
					up = imap.NewNoop()
				}
				if !e.srv.Users[0].Conn.Push(up, appDone) {
					return
				}
				atomic.AddInt64(&e.out.Flooded, 1)
			}
		}()
	}
	go e.application(appDone)
	<-appDone
	if l2 != nil {
		_ = l2.Close() // the application closes its listeners once Close returned
	}
	if out.Fatal {
		if rec != nil {
			out.Events = rec.stop()
		}
		return out, nil
	}
	cwg.Wait()
	owg.Wait()
	// nothing of gluon may be left once Close returned (and the application closed its listener)
	deadline := time.Now().Add(leakWait)
	var left map[string]string
	for {
		left = map[string]string{}
		for id, st := range gluonGoroutines() {
			if _, old := before[id]; !old {
				left[id] = st
			}
		}
		if len(left) == 0 || time.Now().After(deadline) {
			break
		}
		time.Sleep(50 * time.Millisecond)
	}
	if rec != nil {
		out.Events = rec.stop()
	}
	out.Goroutines = runtime.NumGoroutine()
	if len(left) > 0 {
		byTop := map[string][]string{}
		for _, st := range left {
			k := topGluonFrame(st)
			byTop[k] = append(byTop[k], st)
		}
		tops := make([]string, 0, len(byTop))
		for k := range byTop {
			tops = append(tops, k)
		}
		sort.Strings(tops)
		for _, k := range tops {
			out.Leaked += len(byTop[k])
			e.find("goroutine-leak/"+strings.TrimLeft(k, "./"), fmt.Sprintf("%d goroutine(s) of gluon still exist %v after Server.Close returned and the listener was closed; first stack:\n%s\n\n%s",
				len(byTop[k]), leakWait, byTop[k][0], sc.describe()))
		}
	}
	return out, nil
}
