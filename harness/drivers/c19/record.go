package c19

import (
	"bytes"
	"encoding/json"
	"fmt"
	"runtime"
	"strconv"
	"strings"
	"sync"
	"sync/atomic"
)

// rawEvent is one call of verifhook.Event as it arrived: the sequence number is taken inside the hook
// under one mutex, so the order of the slice is an order in which the hooked instants really happened.
type rawEvent struct {
	Seq    int64
	Goid   int64
	Kind   string
	ID     int64
	Detail string
}

type recorder struct {
	on  int32
	mu  sync.Mutex
	evs []rawEvent
}

func goid() int64 {
	var buf [64]byte
	n := runtime.Stack(buf[:], false)
	f := bytes.Fields(buf[:n]) // "goroutine 123 [running]:"
	if len(f) < 2 {
		return -1
	}
	id, _ := strconv.ParseInt(string(f[1]), 10, 64)
	return id
}

func (r *recorder) event(kind string, id int64, detail string) {
	if atomic.LoadInt32(&r.on) == 0 {
		return
	}
	g := goid()
	r.mu.Lock()
	r.evs = append(r.evs, rawEvent{Seq: int64(len(r.evs) + 1), Goid: g, Kind: kind, ID: id, Detail: detail})
	r.mu.Unlock()
}

func (r *recorder) start() { atomic.StoreInt32(&r.on, 1) }
func (r *recorder) stop() []rawEvent {
	atomic.StoreInt32(&r.on, 0)
	r.mu.Lock()
	defer r.mu.Unlock()
	out := r.evs
	r.evs = nil
	return out
}

// tev is one line of trace.ndjson (see GluonLocksTrace.tla).
type tev struct {
	G   string `json:"g"`
	ID  string `json:"id"`
	Op  string `json:"op"`
	Obj string `json:"obj"`
	// Lock: the name of the lock of an acq / rel event without its mode ("" otherwise) - read by GluonLocksFree
	Lock string `json:"lock"`
	seq  int64
	via  string // touch events: the accessor of the state that was called (not part of the trace TLC reads)
}

type role struct {
	kind  string // loop rd h upd fwd pump srv acc closer rem | "" = not a goroutine of the model
	id    string
	state int64 // pump: state id, resolved to a session lazily
}

type translated struct {
	Lines    []tev
	Sessions []string
	Users    []string
	Dropped  map[string]int // events without a counterpart in the specification, by reason
	Bound    map[string]int // events handed to TLC, by op
}

// cmdClass maps the Go type of a parsed command to the command class of GluonLocks.
func cmdClass(typ string, isErr bool) string {
	if isErr {
		return "done" // parse error: BAD, the loop goes on
	}
	t := strings.TrimPrefix(typ, "*command.")
	switch t {
	case "Login":
		return "login"
	case "Logout":
		return "logout"
	case "Idle":
		return "idle"
	case "Done":
		return "done"
	case "Capability":
		return "caps"
	case "Noop", "IDGet", "IDSet":
		return "noop"
	case "Select", "Examine", "Create", "Delete", "Rename", "Subscribe", "Unsubscribe", "List", "LSub", "Status", "Append":
		return "auth"
	case "Check", "Close", "Expunge", "UIDExpunge", "Unselect", "Search", "Fetch", "Store", "Copy", "Move", "UID":
		return "sel"
	}
	return "auth"
}

// translate maps goroutine ids to the goroutines of the specification and hook events to step labels.
// It is a projection only: no ordering rule of the property is decided here.
func translate(evs []rawEvent) *translated {
	out := &translated{Dropped: map[string]int{}, Bound: map[string]int{}}
	roles := map[int64]role{}
	userName := map[string]string{}
	sessSeen := map[string]bool{}
	stateSess := map[int64]string{}
	uname := func(uid string) string {
		if n, ok := userName[uid]; ok {
			return n
		}
		n := fmt.Sprintf("u%d", len(userName)+1)
		userName[uid] = n
		out.Users = append(out.Users, n)
		return n
	}
	sname := func(id int64) string {
		n := fmt.Sprintf("s%d", id)
		if !sessSeen[n] {
			sessSeen[n] = true
			out.Sessions = append(out.Sessions, n)
		}
		return n
	}
	emit := func(e rawEvent, g, id, op, obj string) {
		lock := ""
		if op == "acq" || op == "rel" {
			lock = strings.TrimSuffix(strings.TrimSuffix(obj, ".W"), ".R")
			if lock == "publishLock" {
				lock = "publish"
			}
		}
		out.Lines = append(out.Lines, tev{G: g, ID: id, Op: op, Obj: obj, Lock: lock, seq: e.Seq})
		out.Bound[op]++
	}
	for _, e := range evs {
		// goroutine starts and calls of the application define the roles
		switch e.Kind {
		case "go.start":
			switch {
			case e.Detail == "serve":
				roles[e.Goid] = role{kind: "srv", id: "-"}
			case e.Detail == "accept":
				roles[e.Goid] = role{kind: "acc", id: "-"}
			case e.Detail == "session":
				roles[e.Goid] = role{kind: "loop", id: sname(e.ID)}
				emit(e, "loop", sname(e.ID), "go.start", "session")
			case e.Detail == "reader":
				roles[e.Goid] = role{kind: "rd", id: sname(e.ID)}
			case e.Detail == "handler":
				roles[e.Goid] = role{kind: "h", id: sname(e.ID)}
			case e.Detail == "idle":
				roles[e.Goid] = role{}
			case strings.HasPrefix(e.Detail, "update:"):
				roles[e.Goid] = role{kind: "upd", id: uname(strings.TrimPrefix(e.Detail, "update:"))}
			case strings.HasPrefix(e.Detail, "forward:"):
				roles[e.Goid] = role{kind: "fwd", id: uname(strings.TrimPrefix(e.Detail, "forward:"))}
			case strings.HasPrefix(e.Detail, "pump:gluon-state-"):
				k, _ := strconv.ParseInt(strings.TrimPrefix(e.Detail, "pump:gluon-state-"), 10, 64)
				roles[e.Goid] = role{kind: "pump", state: k}
			default:
				roles[e.Goid] = role{}
			}
			if e.Detail != "session" {
				out.Dropped["goroutine start (role mapping only)"]++
			}
			continue
		case "call":
			switch {
			case e.Detail == "Close":
				roles[e.Goid] = role{kind: "closer", id: "-"}
				emit(e, "closer", "-", "call", "Close")
			case strings.HasPrefix(e.Detail, "RemoveUser:"):
				u := uname(strings.TrimPrefix(e.Detail, "RemoveUser:"))
				roles[e.Goid] = role{kind: "rem", id: u}
				emit(e, "rem", u, "call", "RemoveUser")
			case strings.HasPrefix(e.Detail, "user.close:"):
				r := roles[e.Goid]
				if r.kind == "closer" || r.kind == "rem" {
					emit(e, r.kind, r.id, "call", "user.close:"+uname(strings.TrimPrefix(e.Detail, "user.close:")))
				} else {
					out.Dropped["user.close outside Close/RemoveUser"]++
				}
			}
			continue
		case "ret":
			delete(roles, e.Goid)
			out.Dropped["return of an application call"]++
			continue
		}
		r, ok := roles[e.Goid]
		if !ok || r.kind == "" {
			out.Dropped["goroutine outside the model ("+e.Kind+" "+e.Detail+")"]++
			continue
		}
		id := r.id
		if r.kind == "pump" {
			s, ok := stateSess[r.state]
			if !ok {
				out.Dropped["pump of a state that never reached a session"]++
				continue
			}
			id = s
		}
		switch e.Kind {
		case "state.new":
			if r.kind == "h" {
				stateSess[e.ID] = r.id
				uname(e.Detail)
			}
			out.Dropped["state.new (mapping only)"]++
		case "acq":
			emit(e, r.kind, id, "acq", e.Detail)
		case "rel":
			obj := e.Detail
			if obj == "db.close" {
				obj = "db"
			}
			emit(e, r.kind, id, "rel", obj)
		case "wg.done", "wg.wait", "queue.close":
			emit(e, r.kind, id, e.Kind, e.Detail)
		case "ch.close":
			if e.Detail == "doneCh" {
				out.Dropped["close(doneCh) (inside the closeStates step)"]++
				continue
			}
			emit(e, r.kind, id, "ch.close", e.Detail)
		case "ch.send":
			emit(e, r.kind, id, "ch.send", e.Detail)
		case "ch.recv":
			switch {
			case e.Detail == "cmdCh:idle-end":
				out.Dropped["command that ends IDLE (inside the endIdle step)"]++
			case strings.HasPrefix(e.Detail, "cmdCh:"):
				f := strings.Split(strings.TrimPrefix(e.Detail, "cmdCh:"), ":")
				emit(e, r.kind, id, "ch.recv", "cmd."+cmdClass(f[0], len(f) > 1 && f[len(f)-1] == "true"))
			default:
				emit(e, r.kind, id, "ch.recv", e.Detail)
			}
		case "go.end":
			switch e.Detail {
			case "session", "accept", "serve":
				emit(e, r.kind, id, "go.end", e.Detail)
			default:
				if strings.HasPrefix(e.Detail, "pump:") {
					emit(e, "pump", id, "go.end", "pump")
				} else {
					out.Dropped["goroutine end outside the model"]++
				}
			}
		case "touch":
			s, ok := stateSess[e.ID]
			if !ok {
				out.Dropped["touch of an unknown state"]++
				continue
			}
			emit(e, r.kind, id, "touch", s)
			out.Lines[len(out.Lines)-1].via = e.Detail
		default:
			out.Dropped["unknown event kind "+e.Kind]++
		}
	}
	return out
}

func (t *translated) ndjson() []byte {
	var b bytes.Buffer
	enc := json.NewEncoder(&b)
	for _, l := range t.Lines {
		_ = enc.Encode(l)
	}
	return b.Bytes()
}
