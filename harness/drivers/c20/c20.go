// Package c20: a message handed to APPEND is never silently lost (GluonRecovery.tla).
// TLC generates behaviours of APPEND / COPY / MOVE under connector failure schedules, protected
// operations on the recovery mailbox and restarts; each is replayed over the wire on a real server
// whose connector fails exactly the scheduled calls; after every step every mailbox (through a new
// session) and the LIST output are compared with the model.
package c20

import (
	"encoding/json"
	"errors"
	"fmt"
	"os"
	"path/filepath"
	"regexp"
	"sort"
	"strconv"
	"strings"
	"time"

	"github.com/ProtonMail/gluon/connector"
	"github.com/ProtonMail/gluon/verif/drivers"
	"github.com/ProtonMail/gluon/verif/pkg/ev"
	"github.com/ProtonMail/gluon/verif/pkg/fixture"
	"github.com/ProtonMail/gluon/verif/pkg/tlc"
	"github.com/ProtonMail/gluon/verif/pkg/wire"
)

func init() { drivers.RegisterSharded("C20", "model_checking", 4, 12, run) }

const rec = "Recovered Messages"

type msg struct {
	Lit string `json:"lit"`
	UID int    `json:"uid"`
}

type step struct {
	Act     string            `json:"act"`
	Args    []json.RawMessage `json:"args"`
	Fail    string            `json:"fail"`
	Status  string            `json:"status"`
	Listed  bool              `json:"listed"`
	Content map[string][]msg  `json:"content"`
	UIDNext map[string]int    `json:"uidnext"`
}

type trace struct {
	Steps []step `json:"trace"`
	Dedup bool   `json:"dedup,omitempty"` // generated with Dedup = TRUE: replayed against a remote that de-duplicates by content
}

func (s *step) str(i int) string { var v string; _ = json.Unmarshal(s.Args[i], &v); return v }
func (s *step) ints(i int) []int { var v []int; _ = json.Unmarshal(s.Args[i], &v); return v }
func (s *step) num(i int) int    { var v int; _ = json.Unmarshal(s.Args[i], &v); return v }
func (s *step) describe() string {
	p := []string{}
	for _, a := range s.Args {
		p = append(p, string(a))
	}
	return fmt.Sprintf("%s(%s) fail=%s -> %s", s.Act, strings.Join(p, " "), s.Fail, s.Status)
}

func (t *trace) sig() string {
	var b strings.Builder
	for i := range t.Steps {
		b.WriteString(t.Steps[i].describe())
		b.WriteByte(';')
	}
	return b.String()
}

func (t *trace) nontrivial() bool {
	for _, s := range t.Steps {
		if s.Fail != "none" {
			return true
		}
	}
	return false
}

func literal(l string) []byte {
	if l == "l3" {
		// Unhashable of the specification: a part that announces base64 and is not (rfc822.GetMessageHash fails)
		return []byte("From: v@verif.test\r\nDate: Mon, 7 Feb 1994 21:52:25 -0800\r\nSubject: " + l + "\r\nMIME-Version: 1.0\r\nContent-Type: text/plain; charset=utf-8\r\nContent-Transfer-Encoding: base64\r\n\r\nthis is !!! definitely *** not base64 ??? body of " + l + "\r\n")
	}
	return []byte("From: v@verif.test\r\nDate: Mon, 7 Feb 1994 21:52:25 -0800\r\nSubject: " + l + "\r\n\r\nbody of " + l + "\r\n")
}

type rig struct {
	run   *ev.Run
	srv   *fixture.Server
	conn  *fixture.VConn
	c     *wire.Client
	w     *wire.Client // see watcher
	log   []string
	boxes []string
}

func (r *rig) logf(f string, a ...interface{}) { r.log = append(r.log, fmt.Sprintf(f, a...)) }

// dedupFamily: the behaviours being replayed come from a configuration with Dedup = TRUE (the remote identifies messages by content).
var dedupFamily bool

func newRig(run *ev.Run, boxes []string) (*rig, error) {
	conn := fixture.NewVConn(map[string]string{"user": "pass"})
	conn.Dedup = dedupFamily
	srv, err := fixture.StartServer(fixture.Config{Users: []fixture.User{{Name: "user", Pass: "pass", Conn: conn}}})
	if err != nil {
		return nil, err
	}
	r := &rig{run: run, srv: srv, conn: conn, boxes: boxes}
	if err := r.connect(); err != nil {
		r.close()
		return nil, err
	}
	for _, b := range boxes {
		if b == rec {
			continue
		}
		if res := r.c.Cmd("CREATE " + b); res.Status != "OK" {
			r.close()
			return nil, fmt.Errorf("CREATE %s: %s %s", b, res.Status, res.Text)
		}
	}
	return r, nil
}

func (r *rig) connect() error {
	c, err := wire.Dial(r.srv.Addr)
	if err != nil {
		return err
	}
	if res := c.Login("user", "pass"); res.Status != "OK" {
		return fmt.Errorf("login: %s %s", res.Status, res.Text)
	}
	r.c = c
	return nil
}

func (r *rig) close() {
	if r.c != nil {
		r.c.Close()
	}
	if r.w != nil {
		r.w.Close()
		r.w = nil
	}
	_ = r.srv.Close(15 * time.Second)
	r.srv.RemoveDir()
}

// restart closes the server and opens it again on the same directories.
func (r *rig) restart() error {
	r.c.Close()
	if r.w != nil {
		r.w.Close()
		r.w = nil
	}
	old := r.srv
	if err := old.Close(20 * time.Second); err != nil {
		return fmt.Errorf("close: %w", err)
	}
	nc := fixture.NewVConn(map[string]string{"user": "pass"})
	nc.Dedup = dedupFamily
	nc.CarryOver(r.conn)
	cfg := old.Cfg
	cfg.Users = []fixture.User{{Name: "user", Pass: "pass", ID: old.Users[0].ID, Conn: nc}}
	srv, err := fixture.StartServer(cfg)
	if err != nil {
		return fmt.Errorf("reopen: %w", err)
	}
	r.srv, r.conn = srv, nc
	return r.connect()
}

var reSubj = regexp.MustCompile(`(?i)Subject:\s*(\S+)`)

// view reads a mailbox through a brand-new session.
func (r *rig) view(box string) ([]msg, error) {
	oc, err := wire.Dial(r.srv.Addr)
	if err != nil {
		return nil, err
	}
	defer oc.Close()
	if res := oc.Login("user", "pass"); res.Status != "OK" {
		return nil, fmt.Errorf("login: %s", res.Status)
	}
	defer oc.Cmd("LOGOUT")
	if res := oc.Cmd("EXAMINE " + wire.Quote(box)); res.Status != "OK" {
		return nil, fmt.Errorf("EXAMINE %s: %s %s", box, res.Status, res.Text)
	}
	res := oc.Cmd("FETCH 1:* (UID BODY.PEEK[HEADER.FIELDS (SUBJECT)])")
	type row struct {
		n int
		m msg
	}
	var rows []row
	for _, l := range res.Untagged {
		evs := wire.Events([]wire.Line{l})
		if len(evs) != 1 || evs[0].Kind != "FETCH" || evs[0].UID == 0 {
			continue
		}
		m := msg{UID: evs[0].UID}
		for _, lit := range l.Lits {
			if mm := reSubj.FindSubmatch(lit); mm != nil {
				m.Lit = string(mm[1])
			}
		}
		rows = append(rows, row{evs[0].N, m})
	}
	sort.Slice(rows, func(i, j int) bool { return rows[i].n < rows[j].n })
	out := make([]msg, 0, len(rows))
	for _, x := range rows {
		out = append(out, x.m)
	}
	return out, nil
}

func (r *rig) listed() (bool, error) { return listedOn(r.c) }

// watcher: a second session that keeps the recovery mailbox selected all the time and only ever sends LIST (no command
// that flushes): what LIST says must not depend on what the listing session has selected or has been told so far.
func (r *rig) watcher() *wire.Client {
	if r.w != nil {
		return r.w
	}
	c, err := wire.Dial(r.srv.Addr)
	if err != nil {
		return nil
	}
	if res := c.Login("user", "pass"); res.Status != "OK" {
		c.Close()
		return nil
	}
	if res := c.Cmd("SELECT " + wire.Quote(rec)); res.Status != "OK" {
		c.Close()
		return nil
	}
	r.w = c
	return c
}

func listedOn(c *wire.Client) (bool, error) {
	res := c.Cmd(`LIST "" "*"`)
	if res.Status != "OK" {
		return false, fmt.Errorf("LIST: %s %s", res.Status, res.Text)
	}
	for _, l := range res.Untagged {
		if strings.Contains(l.Text, rec) {
			return true, nil
		}
	}
	return false, nil
}

func setText(p []int) string {
	s := make([]string, len(p))
	for i, x := range p {
		s[i] = strconv.Itoa(x)
	}
	return strings.Join(s, ",")
}

var reCopyUID = regexp.MustCompile(`COPYUID \d+ [0-9,:]+ ([0-9,:]+)`)
var reAppendUID = regexp.MustCompile(`APPENDUID \d+ (\d+)`)

func expand(s string) []int {
	var out []int
	for _, part := range strings.Split(s, ",") {
		if i := strings.Index(part, ":"); i >= 0 {
			a, _ := strconv.Atoi(part[:i])
			b, _ := strconv.Atoi(part[i+1:])
			for x := a; x <= b; x++ {
				out = append(out, x)
			}
		} else {
			x, _ := strconv.Atoi(part)
			out = append(out, x)
		}
	}
	return out
}

// exec performs one step; it returns a violation (key, detail) or a machinery error.
func (r *rig) exec(i int, st *step) (key, detail string, err error) {
	fail := st.Fail
	r.conn.Fail = func(call string, n int) error {
		switch {
		case fail == "create" && call == "CreateMessage":
			return errors.New("remote rejects the message")
		case fail == "size" && call == "CreateMessage":
			return connector.ErrMessageSizeExceedsLimits
		case fail == "add" && call == "AddMessagesToMailbox":
			return errors.New("remote cannot label")
		}
		return nil
	}
	defer func() { r.conn.Fail = nil }()
	bad := func(what, format string, a ...interface{}) (string, string, error) {
		return fmt.Sprintf("C20/%s/%s/%s", st.Act, st.Fail, what), fmt.Sprintf("step %d %s: ", i, st.describe()) + fmt.Sprintf(format, a...), nil
	}
	var res wire.Result
	switch st.Act {
	case "Append":
		b, l := st.str(0), st.str(1)
		res = r.c.Append(b, "", literal(l))
		r.logf("APPEND %q %s [remote: %s] -> %s %s", b, l, fail, res.Status, res.Text)
		if res.Status == "OK" {
			if m := reAppendUID.FindStringSubmatch(res.Text); m == nil || m[1] != strconv.Itoa(st.num(2)) {
				if st.Status == "OK" {
					return bad("appenduid", "answered %q, the model says UID %d", res.Text, st.num(2))
				}
			}
		}
	case "CopyOut", "MoveOut":
		verb := map[string]string{"CopyOut": "COPY", "MoveOut": "MOVE"}[st.Act]
		if sr := r.c.Cmd("SELECT " + wire.Quote(rec)); sr.Status != "OK" {
			return bad("select", "cannot select the recovery mailbox: %s %s", sr.Status, sr.Text)
		}
		res = r.c.Cmd(verb + " " + setText(st.ints(0)) + " " + st.str(1))
		r.logf("SELECT %q; %s %s %s [remote: %s] -> %s %s", rec, verb, setText(st.ints(0)), st.str(1), fail, res.Status, res.Text)
		if res.Status == "OK" && st.Status == "OK" {
			text := res.Text
			for _, l := range res.Untagged {
				if strings.Contains(l.Text, "COPYUID") {
					text = l.Text
				}
			}
			if m := reCopyUID.FindStringSubmatch(text); m == nil {
				// (no COPYUID when nothing was added: every message was in the destination already - remote de-duplication)
				if len(st.ints(2)) != 0 {
					return bad("copyuid", "answered %q, the model says destination UIDs %v", text, st.ints(2))
				}
			} else if fmt.Sprint(expand(m[1])) != fmt.Sprint(st.ints(2)) {
				return bad("copyuid", "answered %q, the model says destination UIDs %v", text, st.ints(2))
			}
		}
		r.c.Cmd("UNSELECT")
	case "ExpungeRec":
		if sr := r.c.Cmd("SELECT " + wire.Quote(rec)); sr.Status != "OK" {
			return bad("select", "cannot select the recovery mailbox: %s %s", sr.Status, sr.Text)
		}
		r.c.Cmd("STORE " + setText(st.ints(0)) + " +FLAGS.SILENT (\\Deleted)")
		res = r.c.Cmd("EXPUNGE")
		r.logf("SELECT %q; STORE %s +FLAGS.SILENT (\\Deleted); EXPUNGE -> %s", rec, setText(st.ints(0)), res.Status)
		r.c.Cmd("UNSELECT")
	case "Protected":
		k := st.str(0)
		cmd := map[string]string{
			"CreateRec": `CREATE "Recovered Messages"`, "CreateRecLower": `CREATE "recovered messages"`,
			"CreateRecChild": `CREATE "Recovered Messages/child"`, "DeleteRec": `DELETE "Recovered Messages"`,
			"DeleteRecUpper": `DELETE "RECOVERED MESSAGES"`, "RenameRecAway": `RENAME "Recovered Messages" elsewhere`,
			"RenameOntoRec": `RENAME ` + r.boxes[0] + ` "Recovered Messages"`,
		}[k]
		switch k {
		case "CopyIntoRec", "MoveIntoRec":
			src := ""
			for _, b := range r.boxes {
				if b != rec && len(st.Content[b]) > 0 {
					src = b
					break
				}
			}
			if src == "" {
				return "", "", fmt.Errorf("no source for %s", k)
			}
			r.c.Cmd("SELECT " + src)
			verb := "COPY"
			if k == "MoveIntoRec" {
				verb = "MOVE"
			}
			res = r.c.Cmd(verb + ` 1 "Recovered Messages"`)
			r.logf("SELECT %s; %s 1 %q -> %s %s", src, verb, rec, res.Status, res.Text)
			r.c.Cmd("UNSELECT")
		case "AppendRecLower":
			res = r.c.Append("recovered messages", "", literal("zz"))
			r.logf(`APPEND "recovered messages" -> %s %s`, res.Status, res.Text)
		default:
			res = r.c.Cmd(cmd)
			r.logf("%s -> %s %s", cmd, res.Status, res.Text)
		}
		if res.Status == "OK" {
			return bad(k, "the server answered OK to an operation on the protected recovery mailbox")
		}
		if res.Closed || res.TimedOut {
			return bad("connection", "connection lost")
		}
		res.Status = "NO" // any refusal counts
	case "Restart":
		if err := r.restart(); err != nil {
			return bad("restart", "%v", err)
		}
		r.logf("server closed and reopened")
		res.Status = "OK"
	default:
		return "", "", fmt.Errorf("unknown action %s", st.Act)
	}
	if res.Closed || res.TimedOut {
		return bad("connection", "no tagged reply (closed=%v timeout=%v)", res.Closed, res.TimedOut)
	}
	got := res.Status
	if got == "BAD" {
		got = "NO"
	}
	if got != st.Status {
		return bad("status", "answered %s %s, the model says %s", res.Status, res.Text, st.Status)
	}
	// content of every mailbox and listing
	for _, b := range r.boxes {
		v, err := r.view(b)
		if err != nil {
			return "", "", err
		}
		if fmt.Sprint(v) != fmt.Sprint(st.Content[b]) && !(len(v) == 0 && len(st.Content[b]) == 0) {
			what := "content"
			if st.Act == "Append" && st.Fail == "create" && b == rec {
				what = "not-recovered-once"
			}
			return bad(what, "mailbox %q holds %v, the model says %v", b, v, st.Content[b])
		}
	}
	l, err := r.listed()
	if err != nil {
		return "", "", err
	}
	if l != st.Listed {
		return bad("listing", "LIST shows the recovery mailbox: %v; it holds %d messages", l, len(st.Content[rec]))
	}
	if w := r.watcher(); w != nil {
		lw, err := listedOn(w)
		if err != nil {
			r.w.Close()
			r.w = nil
		} else if lw != st.Listed {
			return bad("listing/session-with-recovery-selected", "LIST of a session that has the recovery mailbox selected shows it: %v; it holds %d messages", lw, len(st.Content[rec]))
		}
	}
	return "", "", nil
}

func run(r *ev.Run, tier, replay string) {
	specDir := filepath.Join(ev.Root(), "spec")
	var traces, dedupTraces []*trace
	nDedup := 0
	var states, transitions int64
	boxes := []string{"A", "B", rec}
	if replay != "" {
		b, err := os.ReadFile(replay)
		if err != nil {
			r.Machinery("replay: %v", err)
			return
		}
		var rp struct {
			Replay struct {
				Trace *trace `json:"trace"`
			} `json:"replay"`
		}
		if err := json.Unmarshal(b, &rp); err != nil || rp.Replay.Trace == nil {
			r.Machinery("replay file: %v", err)
			return
		}
		traces = []*trace{rp.Replay.Trace}
		states, transitions = 1, 1
		if rp.Replay.Trace.Dedup {
			nDedup = 1
			traces = nil
			dedupTraces = []*trace{rp.Replay.Trace}
		}
	} else {
		shard, n := ev.Shard()
		if shard == 0 {
			res, err := tlc.Run(tlc.Options{SpecDir: specDir, Module: "GluonRecovery", Cfg: filepath.Join(specDir, "cfg", "GluonRecovery."+tier+".cfg"),
				Workers: 6, Timeout: 30 * time.Minute, KeepOutput: true})
			if err != nil || res.Violated != "" || res.Error != "" || !res.Finished {
				r.Machinery("TLC on GluonRecovery (%s) did not finish cleanly: err=%v violated=%q error=%q", tier, err, res.Violated, res.Error)
				return
			}
			states, transitions = res.Distinct, res.Generated
		}
		num := 240
		if tier == "thorough" {
			num = 6000
		}
		num = (num + n - 1) / n
		res, err := tlc.Run(tlc.Options{SpecDir: specDir, Module: "GluonRecovery", Cfg: filepath.Join(specDir, "cfg", "GluonRecovery.sim.cfg"),
			Workers: 1, Simulate: true, SimNum: num, SimDepth: 40, Seed: ev.Seed()*7919 + int64(shard), Timeout: 10 * time.Minute, KeepOutput: true,
			OnJSON: func(raw []byte) {
				var t trace
				if json.Unmarshal(raw, &t) == nil && len(t.Steps) > 0 {
					traces = append(traces, &t)
				}
			}})
		if err != nil || res.Violated != "" || res.Error != "" || len(traces) == 0 {
			r.Machinery("TLC simulation of GluonRecovery: err=%v violated=%q error=%q traces=%d", err, res.Violated, res.Error, len(traces))
			return
		}
		transitions += res.Generated
		// second family: the remote de-duplicates by content (GluonRecovery.dedup.cfg exhaustive, dedup.sim.cfg behaviours)
		if shard == 0 {
			res, err := tlc.Run(tlc.Options{SpecDir: specDir, Module: "GluonRecovery", Cfg: filepath.Join(specDir, "cfg", "GluonRecovery.dedup.cfg"),
				Workers: 6, Timeout: 30 * time.Minute, KeepOutput: true})
			if err != nil || res.Violated != "" || res.Error != "" || !res.Finished {
				r.Machinery("TLC on GluonRecovery.dedup.cfg did not finish cleanly: err=%v violated=%q error=%q", err, res.Violated, res.Error)
				return
			}
			states += res.Distinct
			transitions += res.Generated
		}
		nd := 120
		if tier == "thorough" {
			nd = 2000
		}
		nd = (nd + n - 1) / n
		res, err = tlc.Run(tlc.Options{SpecDir: specDir, Module: "GluonRecovery", Cfg: filepath.Join(specDir, "cfg", "GluonRecovery.dedup.sim.cfg"),
			Workers: 1, Simulate: true, SimNum: nd, SimDepth: 40, Seed: ev.Seed()*104729 + int64(shard), Timeout: 10 * time.Minute, KeepOutput: true,
			OnJSON: func(raw []byte) {
				var t trace
				if json.Unmarshal(raw, &t) == nil && len(t.Steps) > 0 {
					t.Dedup = true
					dedupTraces = append(dedupTraces, &t)
				}
			}})
		if err != nil || res.Violated != "" || res.Error != "" || len(dedupTraces) == 0 {
			r.Machinery("TLC simulation of GluonRecovery (dedup): err=%v violated=%q error=%q traces=%d", err, res.Violated, res.Error, len(dedupTraces))
			return
		}
		transitions += res.Generated
		nDedup = len(dedupTraces)
	}
	r.Add("states", states)
	r.Add("transitions", transitions)
	r.Add("behaviours_with_a_deduplicating_remote", int64(nDedup))
	traces = append(traces, dedupTraces...)
	for ti, t := range traces {
		dedupFamily = t.Dedup
		rg, err := newRig(r, boxes)
		if err != nil {
			r.Machinery("server: %v", err)
			return
		}
		for i := range t.Steps {
			key, detail, err := rg.exec(i+1, &t.Steps[i])
			if err != nil {
				r.Machinery("trace %d step %d: %v", ti, i+1, err)
				break
			}
			if key != "" {
				r.Violate(key, detail+"\nbehaviour:\n  "+strings.Join(rg.log, "\n  "), map[string]interface{}{"trace": t})
				break
			}
			r.Add("steps_replayed", 1)
		}
		if ti < 2 {
			r.Sample(map[string]interface{}{"concrete": rg.log})
		}
		rg.close()
		r.Eval(t.sig(), t.nontrivial())
		r.Add("traces_validated_against_impl", 1)
	}
	r.Set("rule", "behaviours of GluonRecovery (APPEND with remote create/size failures, COPY/MOVE out of the recovery mailbox with import/label failures, expunge inside it, ten protected operations, restarts) generated by TLC simulation and replayed over the wire on a real server whose connector fails exactly the scheduled calls; after every step every mailbox is read through a new session and LIST is checked; the bounded model is also checked exhaustively; non-trivial = contains a failing remote call; distinct = distinct abstract step sequence")
	r.Assumptions = []string{"message identity = Subject marker; the recovery mailbox is addressed as \"Recovered Messages\"", "any non-OK completion counts as a refusal for the protected operations"}
}
