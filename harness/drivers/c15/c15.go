// Package c15: SEARCH / UID SEARCH return exactly what GluonSearch.tla says.
// TLC enumerates (mailbox content, key tree) cases with the expected ascending list of sequence
// numbers and UIDs; the harness builds every mailbox content on a real server (APPEND with flags and
// internal date, STORE, a second session that expunges for the stale-view boxes), renders every key
// tree to IMAP text, runs SEARCH and UID SEARCH in the session that holds the view and compares.
package c15

import (
	"encoding/json"
	"fmt"
	"math/rand"
	"os"
	"path/filepath"
	"regexp"
	"sort"
	"strconv"
	"strings"
	"sync"
	"time"

	"github.com/ProtonMail/gluon/verif/drivers"
	"github.com/ProtonMail/gluon/verif/pkg/ev"
	"github.com/ProtonMail/gluon/verif/pkg/fixture"
	"github.com/ProtonMail/gluon/verif/pkg/tlc"
	"github.com/ProtonMail/gluon/verif/pkg/wire"
)

func init() { drivers.Register("C15", "model_checking", run) }

// ---- what TLC prints ---------------------------------------------------------

type rng struct {
	A int `json:"a"`
	B int `json:"b"`
}

// node is a key tree as printed by Pr() in the spec.
type node struct {
	K string  `json:"k"`
	N int     `json:"n,omitempty"`
	S string  `json:"s,omitempty"`
	F string  `json:"f,omitempty"`
	R []rng   `json:"r,omitempty"`
	C []*node `json:"c,omitempty"`
}

type expect struct {
	Res  string `json:"res"`
	Seqs []int  `json:"seqs"`
	Uids []int  `json:"uids"`
}

type tcase struct {
	Box  string  `json:"box"`
	Cs   string  `json:"cs,omitempty"`   // CHARSET argument ("" = none)
	OrNo bool    `json:"orno,omitempty"` // the server may also refuse the charset with a tagged NO
	Keys []*node `json:"keys"`
	Exp  expect  `json:"exp"`
}

type msg struct {
	UID    int      `json:"uid"`
	Sys    []string `json:"sys"`
	Kws    []string `json:"kws"`
	Recent bool     `json:"recent"`
	Idate  int      `json:"idate"`
	Ivar   string   `json:"ivar"`
	Sdate  int      `json:"sdate"`
	Svar   string   `json:"svar"`
	Size   int      `json:"size"`
	Gone   bool     `json:"gone"`
	Lines  []string `json:"lines"`
}

type boxdef struct {
	Def   string `json:"def"`
	IDLen int    `json:"idlen"`
	Msgs  []msg  `json:"msgs"`
}

// ---- abstract -> concrete ----------------------------------------------------

// the three dates of the model: d1 < d2 < d3
func day(d int) int { return 8 + d } // 9, 10, 11 February 1994 (Wed, Thu, Fri)

var weekday = map[int]string{8: "Tue", 9: "Wed", 10: "Thu", 11: "Fri", 12: "Sat"}

// appendDateTime: the date-time argument of APPEND whose UTC calendar date is d.
func appendDateTime(d int, variant string) (string, error) {
	dd := day(d)
	switch variant {
	case "mid":
		return fmt.Sprintf("%02d-Feb-1994 12:00:00 +0000", dd), nil
	case "start":
		return fmt.Sprintf("%02d-Feb-1994 00:00:00 +0000", dd), nil
	case "end":
		return fmt.Sprintf("%02d-Feb-1994 23:59:59 +0000", dd), nil
	case "east": // 00:30 local on the next day, 8 hours ahead of UTC = 16:30 UTC on day dd
		return fmt.Sprintf("%02d-Feb-1994 00:30:00 +0800", dd+1), nil
	case "west": // 23:30 local on the previous day, 8 hours behind UTC = 07:30 UTC on day dd
		return fmt.Sprintf("%02d-Feb-1994 23:30:00 -0800", dd-1), nil
	}
	return "", fmt.Errorf("unknown internal date variant %q", variant)
}

// dateHeader: the 31 characters of the Date: header whose written calendar date is d.
func dateHeader(d int, variant string) (string, error) {
	dd := day(d)
	var t string
	switch variant {
	case "mid":
		t = "12:00:00 +0000"
	case "east": // the same instant is the previous day in UTC
		t = "00:30:00 +0800"
	case "west": // the same instant is the next day in UTC
		t = "23:30:00 -0800"
	default:
		return "", fmt.Errorf("unknown Date: variant %q", variant)
	}
	return fmt.Sprintf("%s, %02d Feb 1994 %s", weekday[dd], dd, t), nil
}

func (m *msg) literal() ([]byte, error) {
	var b strings.Builder
	for _, l := range m.Lines {
		if strings.HasPrefix(l, "Date: #") {
			h, err := dateHeader(m.Sdate, m.Svar)
			if err != nil {
				return nil, err
			}
			if len("Date: "+h) != len(l) {
				return nil, fmt.Errorf("Date: header %q does not have the length the spec assumes (%d)", h, len(l)-6)
			}
			l = "Date: " + h
		}
		b.WriteString(l)
		b.WriteString("\r\n")
	}
	return []byte(b.String()), nil
}

func imapFlag(f string) string { return "\\" + f }

func (m *msg) flagList() []string {
	var out []string
	for _, f := range m.Sys {
		out = append(out, imapFlag(f))
	}
	out = append(out, m.Kws...)
	return out
}

// renderer turns key trees into IMAP text; the free choices of the syntax are taken with the seed.
type renderer struct{ rnd *rand.Rand }

func (r *renderer) word(w string) string {
	switch x := r.rnd.Intn(20); {
	case x < 14:
		return w
	case x < 17:
		return strings.ToLower(w)
	default:
		return w[:1] + strings.ToLower(w[1:])
	}
}

func atomSafe(s string) bool {
	if s == "" {
		return false
	}
	for i := 0; i < len(s); i++ {
		c := s[i]
		if c <= ' ' || c >= 0x7f || strings.ContainsRune("(){%*\"\\]", rune(c)) {
			return false
		}
	}
	return true
}

func (r *renderer) astring(s string) string {
	if atomSafe(s) && r.rnd.Intn(2) == 0 {
		return s
	}
	return wire.Quote(s)
}

func (r *renderer) date(d int) string {
	dd := day(d)
	s := fmt.Sprintf("%02d-Feb-1994", dd)
	if dd < 10 && r.rnd.Intn(3) == 0 {
		s = fmt.Sprintf("%d-Feb-1994", dd) // date-day = 1*2DIGIT
	}
	if r.rnd.Intn(3) == 0 {
		return `"` + s + `"`
	}
	return s
}

func setText(rs []rng) string {
	num := func(x int) string {
		if x == 0 {
			return "*"
		}
		return strconv.Itoa(x)
	}
	var parts []string
	for _, x := range rs {
		if x.A == x.B {
			parts = append(parts, num(x.A))
		} else {
			parts = append(parts, num(x.A)+":"+num(x.B))
		}
	}
	return strings.Join(parts, ",")
}

func (r *renderer) key(n *node) (string, error) {
	switch n.K {
	case "ALL", "ANSWERED", "DELETED", "DRAFT", "FLAGGED", "NEW", "OLD", "RECENT", "SEEN",
		"UNANSWERED", "UNDELETED", "UNDRAFT", "UNFLAGGED", "UNSEEN":
		return r.word(n.K), nil
	case "KEYWORD", "UNKEYWORD":
		return r.word(n.K) + " " + n.S, nil
	case "BEFORE", "ON", "SINCE", "SENTBEFORE", "SENTON", "SENTSINCE":
		return r.word(n.K) + " " + r.date(n.N), nil
	case "LARGER", "SMALLER":
		return r.word(n.K) + " " + strconv.Itoa(n.N), nil
	case "FROM", "TO", "CC", "BCC", "SUBJECT", "BODY", "TEXT":
		return r.word(n.K) + " " + r.astring(n.S), nil
	case "HEADER":
		return r.word(n.K) + " " + r.astring(n.F) + " " + r.astring(n.S), nil
	case "UID":
		return r.word(n.K) + " " + setText(n.R), nil
	case "SEQ":
		return setText(n.R), nil
	case "NOT":
		if len(n.C) != 1 {
			return "", fmt.Errorf("NOT with %d operands", len(n.C))
		}
		a, err := r.key(n.C[0])
		return r.word("NOT") + " " + a, err
	case "OR":
		if len(n.C) != 2 {
			return "", fmt.Errorf("OR with %d operands", len(n.C))
		}
		a, err := r.key(n.C[0])
		if err != nil {
			return "", err
		}
		b, err := r.key(n.C[1])
		return r.word("OR") + " " + a + " " + b, err
	case "LIST":
		var parts []string
		for _, c := range n.C {
			s, err := r.key(c)
			if err != nil {
				return "", err
			}
			parts = append(parts, s)
		}
		return "(" + strings.Join(parts, " ") + ")", nil
	}
	return "", fmt.Errorf("unknown key kind %q", n.K)
}

func (r *renderer) command(c *tcase) (string, error) {
	s, err := r.keys(c.Keys)
	if c.Cs != "" {
		s = r.word("CHARSET") + " " + c.Cs + " " + s
	}
	return s, err
}

func (r *renderer) keys(ks []*node) (string, error) {
	var parts []string
	for _, k := range ks {
		s, err := r.key(k)
		if err != nil {
			return "", err
		}
		parts = append(parts, s)
	}
	return strings.Join(parts, " "), nil
}

// canonical text of keys / of a case (fixed rendering), used as identity
func canon(ks []*node) string {
	r := &renderer{rnd: rand.New(zeroSource{})}
	s, _ := r.keys(ks)
	return s
}

func canonCase(c *tcase) string {
	r := &renderer{rnd: rand.New(zeroSource{})}
	s, _ := r.command(c)
	return s
}

type zeroSource struct{}

func (zeroSource) Int63() int64 { return 0 }
func (zeroSource) Seed(int64)   {}

func topKind(c *tcase) string {
	if c.Cs != "" {
		return "CHARSET"
	}
	if len(c.Keys) == 1 {
		return c.Keys[0].K
	}
	return "JUXT"
}

func isLeafCase(c *tcase) bool { return c.Cs == "" && len(c.Keys) == 1 && len(c.Keys[0].C) == 0 }

func leaves(n *node, out *[]*node) {
	if len(n.C) == 0 {
		*out = append(*out, n)
		return
	}
	for _, c := range n.C {
		leaves(c, out)
	}
}

// ---- one box on the real server ------------------------------------------------

// shared is what the workers of a run have in common.
type shared struct {
	r       *ev.Run
	mu      sync.Mutex
	counts  map[string]int64
	crashes int
	nameSeq int
}

func (s *shared) count(k string, n int64) {
	s.mu.Lock()
	s.counts[k] += n
	s.mu.Unlock()
}

// worker executes cases of one box on a server process of its own: one command is in flight per
// server, so a dead process is the doing of exactly that command, and the worker can start over alone.
type worker struct {
	sh   *shared
	srv  *fixture.ChildServer
	def  *boxdef
	a, b *wire.Client // a holds the view; b is the other session
	name string
	rnd  *renderer
	// leaf keys that failed on their own in this box (observed), by canonical text
	failedLeaf     map[string]bool
	readOnlyFailed bool    // failedLeaf is shared with other workers and complete: do not write
	replayVia      *string // --replay: the attribution recorded with the stored case
}

func dial(addr string) (*wire.Client, error) {
	c, err := wire.Dial(addr)
	if err != nil {
		return nil, err
	}
	if res := c.Login("user", "pass"); res.Status != "OK" {
		c.Close()
		return nil, fmt.Errorf("login: %+v", res)
	}
	return c, nil
}

var (
	reIDate = regexp.MustCompile(`INTERNALDATE "([^"]*)"`)
	reSize  = regexp.MustCompile(`RFC822\.SIZE (\d+)`)
)

func ok(res wire.Result, what string) error {
	if res.Status != "OK" {
		return fmt.Errorf("%s: %s %s (closed=%v timeout=%v)", what, res.Status, res.Text, res.Closed, res.TimedOut)
	}
	return nil
}

// build creates the mailbox content of the box and leaves session a with the view selected.
func (w *worker) build() error {
	var err error
	if w.a != nil {
		w.a.Close()
	}
	if w.b != nil {
		w.b.Close()
	}
	if w.srv == nil || !w.srv.Alive() {
		if w.srv != nil {
			w.srv.Stop()
		}
		if w.srv, err = fixture.StartChild(fixture.ChildConfig{}); err != nil {
			return fmt.Errorf("server: %w", err)
		}
	}
	if w.a, err = dial(w.srv.Addr); err != nil {
		return err
	}
	if w.b, err = dial(w.srv.Addr); err != nil {
		return err
	}
	w.sh.mu.Lock()
	w.sh.nameSeq++
	w.name = fmt.Sprintf("c15_%s_%d", w.def.Def, w.sh.nameSeq)
	w.sh.mu.Unlock()
	if err := ok(w.a.Cmd("CREATE "+w.name), "CREATE"); err != nil {
		return err
	}
	msgs := w.def.Msgs
	byUID := map[int]*msg{}
	maxUID, lastOld := 0, 0
	for i := range msgs {
		m := &msgs[i]
		byUID[m.UID] = m
		if m.UID > maxUID {
			maxUID = m.UID
		}
		if !m.Recent && m.UID > lastOld {
			lastOld = m.UID
		}
	}
	var fillers []string
	pos := map[int]int{}
	for i := range msgs {
		pos[msgs[i].UID] = i + 1
	}
	appendUID := func(u int) error {
		m := byUID[u]
		if m == nil {
			fillers = append(fillers, strconv.Itoa(u))
			lit := []byte("From: filler@x.io\r\nDate: Mon, 07 Feb 1994 21:52:25 -0800\r\nSubject: filler\r\n\r\nfiller\r\n")
			return ok(w.a.Append(w.name, "", lit), "APPEND filler")
		}
		lit, err := m.literal()
		if err != nil {
			return err
		}
		dt, err := appendDateTime(m.Idate, m.Ivar)
		if err != nil {
			return err
		}
		p := "APPEND " + w.name
		// odd positions get their flags with APPEND, even positions with STORE later
		if pos[u]%2 == 1 && len(m.flagList()) > 0 {
			p += " (" + strings.Join(m.flagList(), " ") + ")"
		}
		p += ` "` + dt + `"`
		res := w.a.CmdLit(p, lit)
		if err := ok(res, "APPEND"); err != nil {
			return err
		}
		if !strings.Contains(res.Text, fmt.Sprintf(" %d]", u)) {
			return fmt.Errorf("APPEND was expected to assign UID %d: %s", u, res.Text)
		}
		return nil
	}
	for u := 1; u <= lastOld; u++ {
		if err := appendUID(u); err != nil {
			return err
		}
	}
	if lastOld > 0 {
		// another session looks at the mailbox: the messages so far are no longer \Recent for anybody else
		if err := ok(w.b.Cmd("SELECT "+w.name), "other session SELECT"); err != nil {
			return err
		}
		if err := ok(w.b.Cmd("UNSELECT"), "other session UNSELECT"); err != nil {
			return err
		}
	}
	for u := lastOld + 1; u <= maxUID; u++ {
		if err := appendUID(u); err != nil {
			return err
		}
	}
	if err := ok(w.a.Cmd("SELECT "+w.name), "SELECT"); err != nil {
		return err
	}
	if len(fillers) > 0 {
		set := strings.Join(fillers, ",")
		if err := ok(w.a.Cmd("UID STORE "+set+" +FLAGS.SILENT (\\Deleted)"), "UID STORE fillers"); err != nil {
			return err
		}
		if err := ok(w.a.Cmd("UID EXPUNGE "+set), "UID EXPUNGE fillers"); err != nil {
			return err
		}
	}
	for i := range msgs {
		m := &msgs[i]
		if (i+1)%2 == 0 && len(m.flagList()) > 0 {
			if err := ok(w.a.Cmd(fmt.Sprintf("UID STORE %d +FLAGS.SILENT (%s)", m.UID, strings.Join(m.flagList(), " "))), "UID STORE flags"); err != nil {
				return err
			}
		}
	}
	if err := w.verifyContent(); err != nil {
		return err
	}
	// stale view: another session expunges; session a is never told (no NOOP from here on)
	var gone []string
	for i := range msgs {
		if msgs[i].Gone {
			gone = append(gone, strconv.Itoa(msgs[i].UID))
		}
	}
	if len(gone) > 0 {
		if err := ok(w.b.Cmd("SELECT "+w.name), "other session SELECT"); err != nil {
			return err
		}
		if err := ok(w.b.Cmd("UID EXPUNGE "+strings.Join(gone, ",")), "other session UID EXPUNGE"); err != nil {
			return err
		}
		res := w.b.Cmd("UID SEARCH ALL")
		if err := ok(res, "other session UID SEARCH ALL"); err != nil {
			return err
		}
		left := map[int]bool{}
		for _, u := range searchNumbers(res) {
			left[u] = true
		}
		for i := range msgs {
			if msgs[i].Gone == left[msgs[i].UID] {
				return fmt.Errorf("stale view construction: after the other session's UID EXPUNGE %v the mailbox holds %v", gone, searchNumbers(res))
			}
		}
		if err := ok(w.b.Cmd("UNSELECT"), "other session UNSELECT"); err != nil {
			return err
		}
	}
	return nil
}

// verifyContent checks through FETCH that the server holds what the spec's box says
// (UIDs, flags with \Recent, UTC date of INTERNALDATE, RFC822.SIZE).
func (w *worker) verifyContent() error {
	msgs := w.def.Msgs
	if len(msgs) == 0 {
		res := w.a.Cmd("UID SEARCH ALL")
		if err := ok(res, "UID SEARCH ALL"); err != nil {
			return err
		}
		if n := searchNumbers(res); len(n) != 0 {
			return fmt.Errorf("empty box holds %v", n)
		}
		return nil
	}
	res := w.a.Cmd("FETCH 1:* (UID FLAGS INTERNALDATE RFC822.SIZE)")
	if err := ok(res, "FETCH 1:*"); err != nil {
		return err
	}
	seen := 0
	for _, l := range res.Untagged {
		evs := wire.Events([]wire.Line{l})
		if len(evs) != 1 || evs[0].Kind != "FETCH" || evs[0].UID == 0 {
			continue
		}
		e := evs[0]
		seen++
		if e.N < 1 || e.N > len(msgs) {
			return fmt.Errorf("content check: unexpected message %d", e.N)
		}
		m := &msgs[e.N-1]
		if e.UID != m.UID {
			return fmt.Errorf("content check: message %d has UID %d, box says %d", e.N, e.UID, m.UID)
		}
		want := map[string]bool{}
		for _, f := range m.flagList() {
			want[strings.ToLower(f)] = true
		}
		if m.Recent {
			want["\\recent"] = true
		}
		got := map[string]bool{}
		for _, f := range e.Flags {
			got[strings.ToLower(f)] = true
		}
		if fmt.Sprint(keysOf(want)) != fmt.Sprint(keysOf(got)) {
			return fmt.Errorf("content check: message %d has flags %v, box says %v", e.N, keysOf(got), keysOf(want))
		}
		d := reIDate.FindStringSubmatch(l.Text)
		wantDate := fmt.Sprintf("%02d-Feb-1994", day(m.Idate))
		if d == nil || !strings.HasPrefix(d[1], wantDate) || !strings.HasSuffix(d[1], "+0000") {
			return fmt.Errorf("content check: message %d reports %v, box says UTC date %s", e.N, d, wantDate)
		}
		sz := reSize.FindStringSubmatch(l.Text)
		if sz == nil || sz[1] != strconv.Itoa(m.Size) {
			return fmt.Errorf("content check: message %d reports size %v, box says %d (appended text + %d bytes id line)", e.N, sz, m.Size, w.def.IDLen)
		}
	}
	if seen != len(msgs) {
		return fmt.Errorf("content check: %d messages fetched, box has %d", seen, len(msgs))
	}
	return nil
}

func keysOf(m map[string]bool) []string {
	var out []string
	for k := range m {
		out = append(out, k)
	}
	sort.Strings(out)
	return out
}

func searchNumbers(res wire.Result) []int {
	var got []int
	for _, l := range res.Untagged {
		if l.Text == "* SEARCH" || strings.HasPrefix(l.Text, "* SEARCH ") {
			for _, f := range strings.Fields(l.Text)[2:] {
				n, err := strconv.Atoi(f)
				if err != nil {
					n = -1
				}
				got = append(got, n)
			}
		}
	}
	return got
}

type outcome struct {
	lost   bool
	status string
	text   string
	nums   []int
}

func (w *worker) search(cmd, text string) outcome {
	res := w.a.Cmd(cmd + " " + text)
	return outcome{lost: res.Closed || res.TimedOut, status: res.Status, text: res.Text, nums: searchNumbers(res)}
}

func same(a, b []int) bool {
	if len(a) != len(b) {
		return false
	}
	for i := range a {
		if a[i] != b[i] {
			return false
		}
	}
	return true
}

func asSet(a []int) []int {
	m := map[int]bool{}
	var out []int
	for _, x := range a {
		if !m[x] {
			m[x] = true
			out = append(out, x)
		}
	}
	sort.Ints(out)
	return out
}

// judge compares one command's outcome with the expectation; it returns the kinds of difference.
func judge(o outcome, res string, want []int, orNo bool) []string {
	if orNo && o.status == "NO" {
		return nil // the charset is not supported and was refused as RFC 3501 demands
	}
	if res == "BAD" {
		if o.status != "BAD" {
			return []string{"beyond-not-bad"}
		}
		return nil
	}
	if o.status != "OK" {
		return []string{"valid-refused"}
	}
	var kinds []string
	set := asSet(o.nums)
	if len(set) != len(o.nums) {
		kinds = append(kinds, "duplicates")
	} else if !sort.IntsAreSorted(o.nums) {
		kinds = append(kinds, "not-ascending")
	}
	if !same(set, want) {
		kinds = append(kinds, "wrong-messages")
	}
	return kinds
}

func (w *worker) violate(c *tcase, cmd, kind, text, detail string) {
	key := fmt.Sprintf("%s/%s/%s", cmd, topKind(c), kind)
	w.sh.r.Add("failing_executions", 1)
	// a systematic failure (say, UID SEARCH answering sequence numbers) fails nearly every case: the
	// first 60 signatures are written out, the rest is only counted
	if w.sh.r.NumViolations() >= 60 {
		w.sh.r.Add("failing_executions_after_60_signatures", 1)
		return
	}
	w.sh.r.Violate(key, fmt.Sprintf("box %s (%s): %s %s\n%s\nspec expects %s seqs=%v uids=%v",
		w.def.Def, w.describeBox(), cmd2text(cmd), text, detail, c.Exp.Res, c.Exp.Seqs, c.Exp.Uids),
		map[string]interface{}{"box": w.def, "case": c, "text": text, "via": w.via(c)})
}

func cmd2text(cmd string) string {
	if cmd == "UIDSEARCH" {
		return "UID SEARCH"
	}
	return cmd
}

func (w *worker) describeBox() string {
	var parts []string
	for i, m := range w.def.Msgs {
		s := fmt.Sprintf("%d:uid%d", i+1, m.UID)
		if m.Gone {
			s += "(expunged by another session, still in this view)"
		}
		parts = append(parts, s)
	}
	if len(parts) == 0 {
		return "empty"
	}
	return strings.Join(parts, " ")
}

// via names the leaf kinds of the case that already failed as single keys in this box.
func (w *worker) via(c *tcase) string {
	if w.replayVia != nil {
		return *w.replayVia
	}
	if isLeafCase(c) {
		return ""
	}
	var ls []*node
	for _, k := range c.Keys {
		leaves(k, &ls)
	}
	kinds := map[string]bool{}
	for _, l := range ls {
		if w.failedLeaf[canon([]*node{l})] {
			kinds[l.K] = true
		}
	}
	if len(kinds) == 0 {
		return ""
	}
	return "-via-" + strings.Join(keysOf(kinds), "+")
}

// runCase executes SEARCH and UID SEARCH for one case. It returns false when the view was lost.
func (w *worker) runCase(c *tcase, text string) bool {
	n := len(w.def.Msgs)
	nontrivial := c.Exp.Res == "BAD" || (len(c.Exp.Seqs) > 0 && len(c.Exp.Seqs) < n)
	cn := canonCase(c)
	failed := false
	var outs [2]outcome
	for i, cmd := range []string{"SEARCH", "UIDSEARCH"} {
		w.sh.r.Eval(cmd+" "+w.def.Def+" "+cn, nontrivial)
		w.sh.count(cmd, 1)
		want := c.Exp.Seqs
		if cmd == "UIDSEARCH" {
			want = c.Exp.Uids
		}
		o := w.search(cmd2text(cmd), text)
		outs[i] = o
		if o.lost {
			// no tagged reply: the whole process died, or only this connection
			if w.srv.WaitExit(500 * time.Millisecond) {
				w.sh.mu.Lock()
				w.sh.crashes++
				w.sh.mu.Unlock()
				w.violate(c, cmd, "server-crash", text, "the server process died while handling the command\n"+w.srv.CrashOutput())
			} else {
				w.violate(c, cmd, "connection-lost", text, "the connection was closed or timed out instead of a tagged reply; the server process is still running")
			}
			return false
		}
		for _, kind := range judge(o, c.Exp.Res, want, c.OrNo) {
			failed = true
			detail := fmt.Sprintf("answered %s %s with %v", o.status, o.text, o.nums)
			if kind == "wrong-messages" {
				kind += w.via(c)
			}
			w.violate(c, cmd, kind, text, detail)
		}
	}
	// UID SEARCH must name the messages SEARCH names (whatever the spec expects)
	if outs[0].status == "OK" && outs[1].status == "OK" {
		var mapped []int
		for _, s := range asSet(outs[0].nums) {
			if s >= 1 && s <= n {
				mapped = append(mapped, w.def.Msgs[s-1].UID)
			} else {
				mapped = append(mapped, -s)
			}
		}
		if !same(mapped, asSet(outs[1].nums)) {
			failed = true
			w.violate(c, "UIDSEARCH", "uid-seq-disagree", text,
				fmt.Sprintf("SEARCH answered %v (UIDs %v) but UID SEARCH answered %v", outs[0].nums, mapped, outs[1].nums))
		}
	}
	if failed && isLeafCase(c) && !w.readOnlyFailed {
		w.failedLeaf[cn] = true
	}
	return true
}

// runBox executes the cases on a view of the box.
func (w *worker) runBox(cases []*tcase, texts map[*tcase]string) {
	r := w.sh.r
	defer func() {
		if w.a != nil {
			w.a.Close()
		}
		if w.b != nil {
			w.b.Close()
		}
		if w.srv != nil {
			w.srv.Stop()
		}
	}()
	if err := w.build(); err != nil {
		r.Machinery("box %s cannot be built: %v\n%s", w.def.Def, err, w.crashOutput())
		return
	}
	losses := 0
	for _, c := range cases {
		text := texts[c]
		if text == "" {
			var err error
			if text, err = w.rnd.command(c); err != nil {
				r.Machinery("render: %v", err)
				return
			}
		}
		if w.runCase(c, text) {
			w.sh.count("cases", 1)
			continue
		}
		// the view is gone (reported by runCase): a new server if need be, a new view, and on with the next case
		w.sh.count("cases", 1)
		losses++
		if losses > 20 {
			r.Machinery("box %s: more than 20 lost connections / dead servers in one worker, the rest of its cases was not executed", w.def.Def)
			return
		}
		if err := w.build(); err != nil {
			r.Machinery("box %s cannot be rebuilt after a lost connection: %v\n%s", w.def.Def, err, w.crashOutput())
			return
		}
	}
}

func (w *worker) crashOutput() string {
	if w.srv != nil && !w.srv.Alive() {
		return w.srv.CrashOutput()
	}
	return ""
}

// ---- TLC -----------------------------------------------------------------------

var reBoxes = regexp.MustCompile(`(?m)^\s*Boxes\s*=\s*\{([^}]*)\}`)

type tlcOut struct {
	def      *boxdef
	cases    []*tcase
	distinct int64
	gen      int64
	wall     time.Duration
	err      string
}

// runTLC model-checks the configuration restricted to one box (the boxes are independent, so the
// per-box runs together are the run of the whole cfg; it makes TLC's sequential enumeration of
// initial states parallel).
func runTLC(cfgText, box string) *tlcOut {
	out := &tlcOut{}
	text := reBoxes.ReplaceAllString(cfgText, `  Boxes = {"`+box+`"}`)
	res, err := tlc.Run(tlc.Options{
		SpecDir: filepath.Join(ev.Root(), "spec"), Module: "GluonSearch", CfgText: text,
		Workers: 2, HeapGB: 3, Timeout: 25 * time.Minute, KeepOutput: true,
		OnJSON: func(raw []byte) {
			var c tcase
			if err := json.Unmarshal(raw, &c); err == nil && len(c.Keys) > 0 {
				out.cases = append(out.cases, &c)
				return
			}
			var d boxdef
			if err := json.Unmarshal(raw, &d); err == nil && d.Def != "" {
				out.def = &d
			}
		},
	})
	if err != nil {
		out.err = err.Error()
		return out
	}
	out.distinct, out.gen, out.wall = res.Distinct, res.Generated, res.Wall
	if res.Violated != "" || res.Error != "" || !res.Finished || res.TimedOut {
		out.err = fmt.Sprintf("TLC on GluonSearch (box %s) did not finish cleanly: violated=%q error=%q timeout=%v\n%s", box, res.Violated, res.Error, res.TimedOut, tail(res.Output))
		return out
	}
	if out.def == nil || int64(len(out.cases))+1 != res.Distinct {
		out.err = fmt.Sprintf("TLC (box %s) printed %d cases and def=%v but found %d states", box, len(out.cases), out.def != nil, res.Distinct)
	}
	return out
}

func sortCases(cs []*tcase) {
	keys := make(map[*tcase]string, len(cs))
	for _, c := range cs {
		keys[c] = canonCase(c)
	}
	sort.Slice(cs, func(i, j int) bool {
		li, lj := isLeafCase(cs[i]), isLeafCase(cs[j])
		if li != lj {
			return li
		}
		return keys[cs[i]] < keys[cs[j]]
	})
}

func run(r *ev.Run, tier, replay string) {
	seed := ev.Seed()

	if replay != "" {
		sh := &shared{r: r, counts: map[string]int64{}}
		b, err := os.ReadFile(replay)
		if err != nil {
			r.Machinery("replay: %v", err)
			return
		}
		var rp struct {
			Replay struct {
				Box  *boxdef `json:"box"`
				Case *tcase  `json:"case"`
				Text string  `json:"text"`
				Via  string  `json:"via"`
			} `json:"replay"`
		}
		if err := json.Unmarshal(b, &rp); err != nil || rp.Replay.Box == nil || rp.Replay.Case == nil {
			r.Machinery("replay file: %v", err)
			return
		}
		w := &worker{sh: sh, def: rp.Replay.Box, rnd: &renderer{rnd: rand.New(rand.NewSource(seed))}, failedLeaf: map[string]bool{}, replayVia: &rp.Replay.Via}
		w.runBox([]*tcase{rp.Replay.Case}, map[*tcase]string{rp.Replay.Case: rp.Replay.Text})
		r.Set("states", 1)
		r.Set("transitions", 1)
		r.Set("traces_validated_against_impl", sh.counts["cases"])
		return
	}

	cfgPath := filepath.Join(ev.Root(), "spec", "cfg", "GluonSearch."+tier+".cfg")
	cfgBytes, err := os.ReadFile(cfgPath)
	if err != nil {
		r.Machinery("cfg: %v", err)
		return
	}
	m := reBoxes.FindStringSubmatch(string(cfgBytes))
	if m == nil {
		r.Machinery("cfg %s has no Boxes = {...} line", cfgPath)
		return
	}
	var boxes []string
	for _, f := range strings.Split(m[1], ",") {
		if b := strings.Trim(strings.TrimSpace(f), `"`); b != "" {
			boxes = append(boxes, b)
		}
	}
	sort.Strings(boxes)

	var wg sync.WaitGroup
	var mu sync.Mutex
	var states, gen, total int64
	var tlcWall float64
	var samples []interface{}
	perBox := map[string]int{}
	counts := map[string]int64{}
	crashes := 0
	for bi, box := range boxes {
		wg.Add(1)
		go func(bi int, box string) {
			defer wg.Done()
			out := runTLC(string(cfgBytes), box)
			mu.Lock()
			states += out.distinct
			gen += out.gen
			if out.wall.Seconds() > tlcWall {
				tlcWall = out.wall.Seconds()
			}
			mu.Unlock()
			if out.err != "" {
				r.Machinery("%s", out.err)
				return
			}
			sortCases(out.cases)
			sh := &shared{r: r, counts: map[string]int64{}}
			defer func() {
				mu.Lock()
				for k, v := range sh.counts {
					counts[k] += v
				}
				crashes += sh.crashes
				mu.Unlock()
			}()
			// a few written-out cases per box
			pick := rand.New(rand.NewSource(seed + int64(bi)))
			var smp []interface{}
			for i := 0; i < 2 && len(out.cases) > 0; i++ {
				c := out.cases[pick.Intn(len(out.cases))]
				smp = append(smp, map[string]interface{}{"box": box, "command": "SEARCH " + canonCase(c), "expected": c.Exp, "or_tagged_no": c.OrNo})
			}
			// single leaf keys first (what fails there is named in the signature of composite failures),
			// then the composite cases, split over several views of the same content when there are many
			nLeaf := 0
			for nLeaf < len(out.cases) && isLeafCase(out.cases[nLeaf]) {
				nLeaf++
			}
			failed := map[string]bool{}
			w0 := &worker{sh: sh, def: out.def, rnd: &renderer{rnd: rand.New(rand.NewSource(seed*7919 + int64(bi)*16))}, failedLeaf: failed}
			w0.runBox(out.cases[:nLeaf], nil)
			rest := out.cases[nLeaf:]
			parts := 1
			if len(rest) > 1000 {
				parts = 3
			}
			var wg2 sync.WaitGroup
			for k := 0; k < parts; k++ {
				var mine []*tcase
				for i := k; i < len(rest); i += parts {
					mine = append(mine, rest[i])
				}
				wg2.Add(1)
				go func(k int, mine []*tcase) {
					defer wg2.Done()
					// failed is only read from here on
					w := &worker{sh: sh, def: out.def, rnd: &renderer{rnd: rand.New(rand.NewSource(seed*7919 + int64(bi)*16 + int64(k) + 1))}, failedLeaf: failed, readOnlyFailed: true}
					w.runBox(mine, nil)
				}(k, mine)
			}
			wg2.Wait()
			mu.Lock()
			total += int64(len(out.cases))
			perBox[box] = len(out.cases)
			samples = append(samples, smp...)
			mu.Unlock()
		}(bi, box)
	}
	wg.Wait()
	for _, s := range samples {
		r.Sample(s)
	}
	r.Set("states", states)
	r.Set("transitions", gen)
	r.Set("tlc_wall_s", tlcWall)
	r.Set("cases_per_box", perBox)
	r.Set("server_crashes", crashes)
	r.Set("traces_validated_against_impl", counts["cases"])
	r.Set("executions_per_command", map[string]int64{"SEARCH": counts["SEARCH"], "UID SEARCH": counts["UIDSEARCH"]})
	r.Set("exhaustive", counts["cases"] == total && crashes == 0)
	r.Set("rule", "one case = (mailbox content box, juxtaposed key trees) enumerated exhaustively by TLC from GluonSearch (all 38 key kinds; depth <= 2 quick, <= 3 thorough) with the expected ascending sequence numbers and UIDs; every case is executed with SEARCH and UID SEARCH in the session holding the view, the result line compared as a sequence (order and duplicates matter) and UID SEARCH compared with the UIDs of SEARCH's messages; non-trivial = expected BAD or a proper non-empty subset of the view; distinct = distinct (command, box, key tree)")
	r.Assumptions = []string{
		"the internal date of a message is the UTC calendar date of what FETCH INTERNALDATE reports (checked after building every box); the date of the Date: header is the one written in it",
		"gluon stores an extra first header line X-Pm-Gluon-Id (53 bytes) that the session sees in BODY[] and RFC822.SIZE; the model's sizes include it (checked with FETCH RFC822.SIZE) and no TEXT pattern of the model occurs in it or in the Date: header value",
		"stale view: the other session's UID EXPUNGE is complete (checked with its own UID SEARCH ALL) before the viewing session searches; the viewing session issues nothing but SEARCH / UID SEARCH afterwards",
		"free choices of the key syntax (case of key words, atom or quoted string, quoted dates, one-digit days) are taken with VERIF_SEED; literals are not used",
		"CHARSET: all patterns are ASCII; UTF-8 and US-ASCII must be accepted with the unchanged result, for ISO-8859-1, ISO-2022-CN and an unregistered name either the unchanged result or a tagged NO is right",
		"UID n:* with n above the highest UID is not part of the enumerated keys (not judged by C16 either)",
	}
}

func tail(s string) string {
	if len(s) > 3000 {
		return s[len(s)-3000:]
	}
	return s
}
