#!/usr/bin/env python3
# validates MANIFEST.json and every evidence file against the schemas (uses the tooling venv's jsonschema)
import json, sys, glob, jsonschema
ok = True
def v(path, schema):
    global ok
    try:
        jsonschema.validate(json.load(open(path)), json.load(open(schema)))
        print("valid  ", path)
    except Exception as e:
        ok = False
        print("INVALID", path, str(e).splitlines()[0])
v('/verif/MANIFEST.json', '/root/.vp/MANIFEST.schema.json')
for f in sorted(glob.glob('/verif/evidence/*.json')):
    v(f, '/root/.vp/EVIDENCE.schema.json')
m = json.load(open('/verif/MANIFEST.json'))
ids = {c['property_id'] for c in m['checks']} | {n['property_id'] for n in m.get('not_applicable', [])}
props = [json.loads(l)['id'] for l in open('/verif/properties.jsonl')]
missing = [p for p in props if p not in ids]
if missing: print("properties neither claimed nor not_applicable:", missing)
sys.exit(0 if ok else 1)
