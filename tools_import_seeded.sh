#!/bin/bash
# tools_import_seeded.sh <Cxx> <n> [srcdir]: copy a sub-agent's seeded change n for property Cxx into /verif/seeded/<Cxx>-<n>/
p=$1; n=$2; src=${3:-/tmp/mutout-$p}
d=/verif/seeded/$p-$n
mkdir -p $d
cp $src/patch_$n.diff $d/patch.diff && cp $src/demo_${n}_test.go $d/demo_test.go || exit 1
[ -f $src/notes_$n.txt ] && cp $src/notes_$n.txt $d/notes.txt
ls $d
