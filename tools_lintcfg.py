#!/usr/bin/env python3
# tools_lintcfg.py: every line of every spec/cfg/*.cfg that starts in column 1 begins with a TLC configuration keyword or a comment
import glob,sys,re
kw=("CONSTANT","CONSTANTS","SPECIFICATION","INIT","NEXT","INVARIANT","INVARIANTS","PROPERTY","PROPERTIES","CONSTRAINT","CONSTRAINTS",
    "ACTION_CONSTRAINT","ACTION_CONSTRAINTS","SYMMETRY","VIEW","CHECK_DEADLOCK","POSTCONDITION","ALIAS","\\*","(*")
bad=0
for f in sorted(glob.glob('/verif/spec/cfg/*.cfg')):
    for n,l in enumerate(open(f),1):
        if not l.strip() or l[0] in ' \t': continue
        if not l.startswith(kw):
            print("%s:%d: %s"%(f,n,l.rstrip()[:100])); bad+=1
print("cfg files: %d, bad lines: %d"%(len(glob.glob('/verif/spec/cfg/*.cfg')),bad))
sys.exit(1 if bad else 0)
