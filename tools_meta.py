#!/usr/bin/env python3
# tools_meta.py <id> <breaks> <needs> <caught_by;...>   writes seeded/<id>/meta.json (run command taken from notes.txt)
import json,sys,re,os
sid,breaks,needs,caught=sys.argv[1:5]
d='/verif/seeded/'+sid
notes=open(d+'/notes.txt').read() if os.path.exists(d+'/notes.txt') else ''
m=re.search(r'go test[^`\n]*',notes)
run=m.group(0).strip() if m else ''
meta={"id":sid,"property":sid.split('-')[0],"breaks":breaks,"needs_to_manifest":needs,
 "demonstration":{"file":"demo_test.go","run":run,"placement":"copy into the package directory named in the command"},
 "confirmed":{"how":"tools_confirm_seeded.sh in a scratch worktree of /repo HEAD: patch applies, go build ./... ok, demonstration passes on the clean tree and fails with the change; the suite result was established by the sub-agent that wrote the change (see notes.txt)","date":"2026-09-26"},
 "caught_by":[c for c in caught.split(';') if c],
 "ran":"./tools_seeded.sh /verif/seeded/%s/patch.diff quick <check ids> (applies the patch to /repo, runs the checks, reverts)"%sid}
json.dump(meta,open(d+'/meta.json','w'),indent=1)
print(open(d+'/meta.json').read()[:300])
