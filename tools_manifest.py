#!/usr/bin/env python3
"""Regenerates /verif/MANIFEST.json from the table below (one place to edit)."""
import json

CHECKS = {
 "C16": dict(
   level="model_checking",
   text="GluonSeqSet.tla defines message-set resolution; TLC enumerates every (view size, mode, set) case of the bounded domain, checks the design-level laws of the function (InsideView, BeyondIsBad, UidNeverBad, RangeOrderIrrelevant, CommaIsUnion), and each case is executed on a real server over the wire (FETCH, SEARCH, STORE, COPY, MOVE, UID EXPUNGE) with the effect compared",
   note="bounded: views of 0..4 messages with UID gaps, sets of <=2 ranges over {small numbers, *, six huge numerals}; huge numerals are symbolic in the spec; the server runs in a child process so a crash is an observation",
   technique="TLA+ spec + TLC exhaustive enumeration; replay of every case on the real server over the wire",
   design="DESIGN.md section 5 C16"),
}

PENDING_REASON = "check not built yet in this tree (DESIGN.md section 10 gives the build order); nothing is claimed for it"
NOT_APPLICABLE = {}

props = [json.loads(l)["id"] for l in open("/verif/properties.jsonl")]
checks = []
for pid in props:
    if pid not in CHECKS:
        continue
    c = CHECKS[pid]
    checks.append({
        "property_id": pid,
        "quick_cmd": f"./check {pid} quick",
        "thorough_cmd": f"./check {pid} thorough",
        "evidence_file": f"/verif/evidence/{pid}.json",
        "replay_cmd_template": f"./check {pid} quick --replay {{path}}",
        "engine": "tlc+vcheck",
        "level_claimed": {"category": c["level"], "text": c["text"], "design_ref": c["design"]},
        "level_note": c["note"],
        "technique": c["technique"],
    })
na = []
for pid in props:
    if pid in CHECKS:
        continue
    na.append({"property_id": pid, "reason": NOT_APPLICABLE.get(pid, PENDING_REASON)})

hooks_commits = [l.strip() for l in open("/verif/hooks_commits.txt")] if __import__("os").path.exists("/verif/hooks_commits.txt") else []
m = {
 "version": 1,
 "setup_cmd": "cd /verif && export GOFLAGS=-mod=mod GOPROXY=off GOSUMDB=off GOTOOLCHAIN=local CGO_ENABLED=1 && mkdir -p bin evidence replays && ./check selftest quick",
 "hooks": {
  "guard": "verif",
  "enable": "go build -tags verif (done by ./check on every run, against /repo's working tree)",
  "baseline_off_cmd": "cd /repo && go build ./... && go test -vet=off -count=1 -timeout 25m ./...",
  "source_commits": hooks_commits,
  "add_only": True,
 },
 "engines": [
  {"name": "tlc", "path": "/opt/veriftools/tla/tla2tools.jar", "serves_properties": sorted(CHECKS), "kind_free_text": "TLC 1.8 explicit-state model checker over the TLA+ modules in /verif/spec"},
  {"name": "vcheck", "path": "/verif/harness", "serves_properties": sorted(CHECKS), "kind_free_text": "Go conformance harness: replays TLC-generated cases/behaviours on the real gluon code and validates recorded traces against the specs"},
 ],
 "checks": checks,
 "not_applicable": na,
 "notes": "Entry point ./check <id> <quick|thorough> [--replay file]; exit 0 held, 1 VIOLATION, 2 machinery problem (never a verdict). Known findings: /verif/known-findings.json. See DESIGN.md.",
}
json.dump(m, open("/verif/MANIFEST.json", "w"), indent=1)
print("claimed:", [c["property_id"] for c in checks])
