#!/usr/bin/env python3
"""Regenerates /verif/MANIFEST.json from the table below (one place to edit)."""
import json

CORE_NOTE = "bounded: 2 gated sessions + connector, 2 mailboxes, 3 messages, behaviours of 16-24 free steps then drained; \\Recent not modelled; known deviations F13 (C01) / F14 (C02) are listed in known-findings.json and attributed through the specification's taint sets; schedules restricted to those the update gate can produce"
CHECKS = {

 "C08": dict(level="model_checking",
   text="GluonDB.tla is the relational model (mailboxes, flag tables, messages, shared flags, per-mailbox rows with autoincrement counter, message-to-mailbox links, deleted subscriptions, settings) with a transaction layer (BeginWrite, Commit, AbortError, AbortPanic) and one action per method of db.ReadOnly / db.Transaction (40 reads, 29 writes) carrying the expected reply; bounded families are model-checked exhaustively; behaviours (simulation plus directed TLC searches for every (operation, reply class, argument shape) label not yet reached) are executed on the real SQLite client; abstract messages are clone groups of 1, 2, 499, 500, 501, 999, 1000, 1001 or 2001 concrete messages so that any size-dependent behaviour is a divergence; after every operation the reply and - through an independent read-only database/sql connection - the whole relational state are compared; abort points (error after k operations, failing operation, panic) must leave the pre-transaction tables",
   note="2-3 mailboxes, 3 abstract messages, 2 flags; label coverage measured per run (quick 293 labels, thorough 405); a few argument shapes are outside the domain (duplicate ids in one list, flag strings differing only in case) - listed in the evidence",
   technique="TLA+ relational model + TLC (exhaustive, simulation, directed search); replay on the real SQLite client with raw-SQL state comparison and clone groups", design="DESIGN.md section 5 C08"),

 "C12": dict(level="exploration",
   text="GluonMime.tla (family structure) enumerates (MIME tree, header shape, line-ending mix, boundary class, damage class) classes with the message layout as abstract chunks and the expected BODY/BODYSTRUCTURE tree; laws RangesContiguous, HeaderTextIsAll, FieldsPartition, PartInsideParent, PathsUnique are invariants; pkg/mimegen renders the chunks to bytes; a child-process worker runs imap.NewParsedMessage, rfc822.Parse / Children / Walk / Part and rfc5322.ParseAddressList: on every input no panic / fatal error / hang (generous watchdog), ENVELOPE / BODY / BODYSTRUCTURE must be accepted by a strict IMAP list reader and every section range must lie inside parent and message; for undamaged classes the structure (types, params, sizes, line counts, nested envelopes) and the part ranges must equal the tree; plus seeded instances inside classes (garbage, nesting depth 10/100/200, comment nesting up to 6M, huge lines)",
   note="classes exhaustive within depth <= 3 / node budget; bytes inside a class and the instances are sampled with the seed; one rendering decision pinned by an existing test is a known finding",
   technique="TLA+ tree/layout generator + TLC enumeration of classes; real parsers in a child process; strict list reader", design="DESIGN.md section 5 C12"),
 "C13": dict(level="model_checking",
   text="GluonMime.tla (family fetch) enumerates (tree, shape, section path, partial class) with the expected value as chunk indexes (SectionValue, Partial; laws HeaderTextIsAll, FieldsPartition, PartialLaws); each message is APPENDed to a child-process server and every case FETCHed over the wire and compared octet for octet: BODY[] = appended bytes plus exactly one well-formed id header line, RFC822 = BODY[], RFC822.SIZE = length, HEADER+TEXT = BODY[], each BODY[n.m], HEADER.FIELDS / .NOT, six partial classes per section, literal framing checked by the raw client; sizes across the 256 KiB store block boundary; groups in default shape and all size classes are run once per arrival path (Arrivals: APPEND, refused APPEND found in the recovery mailbox, MOVE out of the recovery mailbox)",
   note="bounded trees (depth <= 3); partial offsets seeded; a top-level message/rfc822 is excluded (RFC 3501 does not settle its numbering)",
   technique="TLA+ section/partial enumeration + wire FETCH compared with bytes known by construction", design="DESIGN.md section 5 C13"),
 "C15": dict(level="model_checking",
   text="GluonSearch.tla: Eval(key, message, view) for all 38 search key kinds over six fixed mailbox contents (incl. two stale views that still hold a message expunged elsewhere, boundary dates and zones, exact sizes around the LARGER/SMALLER threshold); laws InsideView, AscendingNoDup, UidsSameMessages, NotIsComplement, OrIsUnion (De Morgan), ListIsIntersection, BadIffBeyond, SetOrderIrrelevant, LeafLaws are invariants (message-set leaves include unions written in non-ascending order); TLC enumerates every key tree of the bounded depth with the expected ascending result; each case is run as SEARCH and UID SEARCH on child-process servers and compared as a sequence",
   note="mailboxes of up to 4 messages; key depth <= 2 (quick, plus a depth-3 sample) / <= 3 (thorough); gluon choices adopted: internal date = UTC date, sent date = date as written",
   technique="TLA+ evaluator + TLC enumeration of key trees; wire SEARCH / UID SEARCH compared with TLC's sets", design="DESIGN.md section 5 C15"),

 "C11": dict(level="exploration",
   text="GluonSession.tla (line classes): 9 malformed complete-line classes, 7 'odd' classes (control characters in quoted strings, {0}, literal above the cap, SEARCH nesting 10 / 1000 / 10^6, 1 MB atom), 4 cut-off stream classes (end of stream inside a quoted string, a literal, a token; raw TLS hello) and a few valid commands incl. IDLE/DONE/STARTTLS, from every protocol phase; for every (phase, input) the acceptable completion classes, the tag the completion must carry, whether the server closes, and the consecutive-error counter (ErrorCounter, OneCompletionPerLine, UsableAfterError, OthersUnaffected are checked by TLC); TLC enumerates every class sequence of the bounded length and the whole graph of the error counter; each class occurrence is rendered as seeded concrete bytes and sent to a child-process server: exactly one completion per complete line with the line's tag, session usable afterwards, connection closed exactly at the 20th consecutive error, a second user's session answers NOOP after every line, the process neither dies nor spins (CPU clock of the child after the client vanished) nor grows (+300 MiB resident during one line)",
   note="classes and class sequences (length 2 quick / 3 thorough) are exhaustive, the bytes inside a class are sampled with the seed; heavy lines only as first line; time-outs are generous and a clock verdict is confirmed by re-running the sequence alone on a fresh server before it counts",
   technique="TLA+ session/line-class spec + TLC enumeration of class sequences; replay as bytes on a child-process server with CPU / RSS / liveness watchdogs", design="DESIGN.md section 5b C11"),
 "C18": dict(level="model_checking",
   text="GluonSession.tla: two users with identically named mailboxes, phases NotAuth / Auth / Selected (read-write, read-only, IDLE) / Closed, 46 command classes, the outcome relation (acceptable result classes, next phase, effect class = which namespace / mailbox of which user MAY change), one server-wide counter of consecutive failed logins and the jail; action properties Gate, Isolation, WrongCredsNeverAuth, Jail are checked by TLC exhaustively; four families (matrix: every command in every phase; pairs: two sessions of different / the same user; jail: every credential class around the third failure with model ticks; phases: every input sequence of the bounded length) - every transition TLC prints is executed over the wire on a real two-user server by covering tours, and after every step LIST, LSUB, STATUS and FETCH 1:* (UID FLAGS SUBJECT) of every mailbox of BOTH users are compared with the projection before the step: only the components named by the effect class may differ; jail: a LOGIN after the third consecutive failure is answered no earlier than the configured jail time (monotonic clock, lower bound only)",
   note="one fixed instance per command class spelled several ways (case, atom / quoted / literal); credentials near the real ones; not explored: DELETE / RENAME / expunge of a mailbox another session of the same user has selected (C01/C02/C14 cover those), STARTTLS on a server with TLS",
   technique="TLA+ session spec + TLC exhaustive state graph with printed transitions; covering tours replayed over the wire on a two-user server with full projection of both users after every step", design="DESIGN.md section 5b C18"),

 "C07": dict(level="fault_enumeration",
   text="GluonCrash.tla models 19 operations (the start-up itself - RECOVER: recovery-mailbox load, purge of messages marked for deletion, deletion of their files, listing for files without a row, on a directory a killed process left behind - FETCH with a failing cache read and the write-back of the re-downloaded literal, a MessagesCreated batch of 1001 messages faulted at the chunk edges, APPEND, COPY, MOVE, EXPUNGE, STORE, CREATE, DELETE, RENAME, SUBSCRIBE, UNSUBSCRIBE, MOVE/COPY out of the recovery mailbox, connector MessagesCreated / MessageUpdated / MessageDeleted, session release) as their real step lists (every store call, BEGIN, every transaction method, COMMIT) with Crash, FailStep, Recover; invariants AckedSurvives, BeforeOrAfter, AppendNeverLost, EveryListedFetchable, NoOrphans; TLC enumerates every (operation, step, kill|error) triple - the fault plan - with the allowed post-recovery states; each triple is executed in a child process with the store and the database wrapped (generated delegating wrapper for all 74 transaction methods) that kills itself or fails the call at step k; a fresh server on the same directories is compared (LIST, LSUB, UIDVALIDITY, UIDNEXT, FETCH with exact bytes, rows marked deleted, orphan files; a message and its cache file must carry exactly one id header line, that of their own row) with the allowed states; a step list that differs from the spec's is reported as spec out of date (exit 2)",
   note="kill = SIGKILL at a step boundary (not power loss; SQLite WAL); plain read transactions are not step boundaries; connector operations run while the only session watches an untouched mailbox; \\Recent not compared",
   technique="TLA+ step-list model + TLC enumeration of the fault plan; fault/kill injection in child processes through public store/db options", design="DESIGN.md section 5 C07"),

 "C14": dict(level="model_checking",
   text="GluonNamespace.tla: names as component sequences (INBOX case variants, non-ASCII, regex metacharacters), one configuration per hierarchy delimiter ('/', '.', '|', ']', '\\'); actions CREATE (implicit parents, trailing delimiter), DELETE, RENAME (inferiors carried, INBOX special case), SUBSCRIBE/UNSUBSCRIBE (deleted-but-subscribed names), connector MailboxCreated/Updated/Deleted; LIST/LSUB results are computed by an RFC 3501 glob matcher written in TLA+; four bounded configurations are model-checked exhaustively (invariants, matcher laws, action properties) and TLC-generated behaviours are replayed over the wire (modified UTF-7 names) comparing the tagged result of every command, LIST/LSUB \"\" \"*\" after every step, random queries per step and a table of 2400 reference/pattern queries at the end of each behaviour; a server crash on a query is a violation",
   note="names of depth <= 3 over a small component alphabet; gluon's documented decisions G1-G11 are adopted (module header); (UN)SUBSCRIBE of the recovery mailbox, LSUB with empty pattern and UTF-7 decoding of the reference are not judged",
   technique="TLA+ spec with a glob matcher + TLC (exhaustive + simulation per delimiter); wire replay against child-process and in-process servers", design="DESIGN.md section 5 C14"),

 "C20": dict(level="model_checking",
   text="GluonRecovery.tla: APPEND under remote failures (create / too large), COPY and MOVE out of the recovery mailbox under import/label failures, expunge inside it, ten protected operations (create/rename/delete/append/copy/move incl. case variants and children) and restarts; invariants HashesMatch, OncePerDistinct, OkMeansPresent, RejectedMeansRecovered, RefusedIsClean, CanMoveOut are model-checked exhaustively on the bounded configuration; TLC-generated behaviours are replayed over the wire on a real server whose connector fails exactly the scheduled calls, and after every step every mailbox (read through a new session), the LIST output and the announced UIDs must equal the model",
   note="one session, 2 literals, 2 normal mailboxes, behaviours of 14 steps; failure points: CreateMessage, AddMessagesToMailbox; store/database failures during the recovery insertion itself belong to C07",
   technique="TLA+ spec + TLC (exhaustive + simulation); replay with a failure-scheduled harness connector", design="DESIGN.md section 5 C20"),

 "C06": dict(level="model_checking",
   text="GluonCore.tla connector part: one action per message-level update kind (MessagesCreated - plain, with flags, batch of two as one Exists update, with an unknown mailbox to be ignored, for a known message; MessageMailboxesUpdated; MessageFlagsUpdated; MessageUpdated with unchanged literal, with a CHANGED literal (old entity removed and marked deleted, new entity under the same remote id) and with AllowCreate for an unknown message; MessageDeleted; MessageIDChanged; UIDValidityBumped with the invalidation of every selected session (BYE at its next command, reconnect); Noop), duplicates/echoes (model: no-ops) and updates naming unknown or protected objects with the acknowledgement class the connector must see; behaviours interleaving them with client commands are generated by TLC and replayed through the harness connector: the Waiter result of every update, the updates enqueued to every session (an echo must enqueue none), the wire output of the observing sessions and every mailbox after every step must equal the model; a missing acknowledgement within 10 s is a violation",
   note=CORE_NOTE + "; mailbox-level updates on real mailboxes are replayed by the namespace module (C14); the exhaustive family conn2 (one mailbox, 3 messages; 2 messages quick / 3 thorough) is model-checked in both tiers",
   technique="TLA+ spec + TLC-generated behaviours; replay through a harness connector observing every Waiter", design="DESIGN.md section 5 C06"),

 "C17": dict(level="model_checking",
   text="GluonCore.tla with limit constants (MaxMsgs, LimitUid): invariant WithinLimits, action property FailedIsNoop (a refused step changes no mailbox), refused connector updates are all-or-nothing; TLC model-checks a bounded configuration exhaustively and generates behaviours that approach the limits (appends, multi-message COPY/MOVE, connector adds) which are replayed on a server configured with the same limits; after every step every mailbox is read through a new session: it must equal the model and never exceed the limits, refusals must come exactly when the model refuses",
   note=CORE_NOTE + "; limits 2 messages per mailbox / UID below 5; the UID limit is exclusive as implemented; the mailbox-count limit (CREATE / RENAME with implicit parents, connector creations; limit 4) is checked with GluonNamespace.tla's Limit family inside this check; concurrent APPENDs around one free slot: every interleaving of GluonAppendRace.tla (check / insert as separate steps, 2-3 appenders) is forced on the real server with the parking hook append.checked",
   technique="TLA+ spec with limit constants + TLC; gated replay on a server configured with the same limits; per-step database comparison", design="DESIGN.md section 5 C17"),

 "C19": dict(level="model_checking",
   text="GluonLocks.tla: program-counter machines of gluon's goroutines (accept loop, serve, per-session loop / reader / handler / queue pump, per-user update loop and forwarder, Close and RemoveUser) over every lock, wait group and channel they share; TLC checks deadlock freedom, LockOrderCode, OnlyOwner, StatesCounted, NoUseAfterDbClose, DbClosedMeansNoStates and, under weak fairness, CloseReturns / RemoveUserReturns / EveryCommandCompletes / NothingLeftEventually exhaustively on bounded configurations; as-code and seeded configurations must end with their named violation (non-vacuity). Binding: a stress driver runs concurrent sessions, connector updates, disconnects, RemoveUser and Close against a real server built with the verif hooks; every round's recording (lock acquire/release, wait-group, channel, goroutine lifecycle, snapshot touches) is validated by TLC as a behaviour of GluonLocks (GluonLocksTrace.tla) with the invariants evaluated on it; watchdogs on every client call and on Close/RemoveUser and a goroutine dump after Close judge hangs and leaks; directed rounds (Serve context cancelled before Close; a blocked session with more than 32 queued updates dropped before RemoveUser / Close; RemoveUser / Close under a stream of connector updates; sessions leaving after a remote deletion while another one publishes) are the real-code counterparts of the as-code / seeded witnesses of the specification; a recording GluonLocksTrace cannot follow is judged by GluonLocksFree.tla (every goroutine's held locks ascend in the one hierarchy)",
   note="schedules of the real server are sampled (seeded stress rounds), the model is exhaustive only within its bounds (one session at full step granularity, two/three sessions with coarse critical sections); data races proper are reported by an optional go test -race run of the same stress scenario (thorough) and are outside what the specification decides; FETCH worker goroutines and the event publisher are projected away; one known finding (removeState peeks into other sessions' snapshots)",
   technique="TLA+ spec of goroutines/locks/wait groups/channels + TLC (safety, deadlock, liveness) + TLC trace validation of recordings from the hooked real server + watchdogs", design="DESIGN.md section 5 C19"),

 "C09": dict(level="model_checking",
   text="GluonStore.tla has three layers: KV semantics (exhaustive, every transition replayed on the real on-disk store with reply and full state compared), file layer (content class x 13 corruption classes; Get must return the stored bytes or an error), and the per-ID RW lock table with multi-step Set (ReadersSeeCompleteValue, MutualExclusion, deadlock freedom; non-vacuity cfgs that must fail); goroutine histories recorded from the real WriteControlledStore are validated against the spec by TLC trace validation",
   note="content classes are instantiated around the 256 KiB block size of the compressed stream; cipher/compression fidelity inside a class is sampled (seeded); detection of lock-table races is probabilistic per run (thorough runs more rounds); two format-level weaknesses are known findings",
   technique="TLA+ spec: exhaustive KV tour replay + corruption-class enumeration + TLC trace validation of recorded concurrent histories", design="DESIGN.md section 5 C09"),

 "C01": dict(level="model_checking",
   text="GluonCore.tla models snapshots, responder queues, update queues and the client-side mirror; TLC checks MirrorAgrees / SnapAscending / CountShrinksOnlyByExpunge on the model and generates behaviours; each is replayed on a real server over the wire with gated update delivery and the property's own predicate (client mirror built from the real untagged responses vs the real FETCH 1:* (UID FLAGS)) is evaluated at every probe and at quiescence; GluonMerge.tla: every well-formed stream of up to 3 (thorough 4) untagged responses is passed through the real response.Merge and must leave a client with the same knowledge; GluonIdle.tla: the completion of IDLE against the sender goroutine that still buffers pushed responses (ViewAgrees holds for the design, fails for the completion-first order); every complete behaviour (pushes, ticker flushes, DONE, final flush, probe, a change after IDLE) is forced on the real server with the sender parked at the idle.flush hook and the client's mirror compared with what the server sends and reports; GluonRecent.tla: the \\Recent flag (recent bit, target of the shared ExistsStateUpdate, SELECT / EXAMINE, arrivals of every kind) - Sticky model-checked, every 4-step behaviour and simulated 10-step behaviours replayed with gated deliveries, announcements and FETCH flags compared with the model and the no-unannounced-change predicate judged on real data",
   note=CORE_NOTE, technique="TLA+ spec + TLC simulation/model checking; gated replay on the real server; predicate on real wire data", design="DESIGN.md section 5 C01"),
 "C02": dict(level="model_checking",
   text="GluonCore.tla: invariant Converges (quiescent => snapshot = authoritative view); TLC-generated behaviours are replayed with the update gate, driven to exact quiescence, and the long-lived session's FETCH is compared with a brand-new EXAMINE session; GluonPublish.tla: the commit and publish halves of two concurrent parties (two sessions, or a session and the connector) - every interleaving is forced on the real server with parking hooks between the two transactions and the observer is compared with a brand-new session; GluonQueue.tla: the QueuedChannel between writers and a session (Fifo, Conserved, NoLoss, PumpEnds model-checked; every behaviour of 4-5 external calls with batch sizes around the channel buffer and the slice capacity executed on the real queue)",
   note=CORE_NOTE, technique="TLA+ spec + TLC; gated replay with exact drain barrier; fresh-session oracle", design="DESIGN.md section 5 C02"),
 "C03": dict(level="model_checking",
   text="GluonCore.tla is the reference model of APPEND/STORE/EXPUNGE/UID EXPUNGE/CLOSE/COPY/MOVE; behaviours generated by TLC are replayed and after every state-changing step every mailbox is read through a brand-new session and compared with the model (UIDs, message identity, flags); status and UID predictions must match",
   note=CORE_NOTE + "; batch sizes beyond a few messages are covered by C08's clone groups, not here", technique="TLA+ reference model + TLC-generated behaviours; per-step refinement check against the real database view", design="DESIGN.md section 5 C03"),
 "C04": dict(level="model_checking",
   text="GluonCore.tla action properties UidNextMonotone / NewUidAboveAllEver / UidDenotesOneMessage over a history variable; on replay every APPENDUID/COPYUID and every UID seen is recorded per mailbox and checked for reuse, order, UIDNEXT and that announced UIDs hold the announced message",
   note=CORE_NOTE + "; second half GluonValidity.tla: UIDVALIDITY per name across delete, re-create (by two client sessions and the connector, including refused CREATEs), UIDValidityBumped and restarts with the real epoch generator (known finding F16); every 6-step behaviour of two sessions on one name is replayed on a shared server; UIDVALIDITY must not change except through a bump (checked at the end of every GluonCore behaviour)", technique="TLA+ history-variable properties + replay with UID bookkeeping", design="DESIGN.md section 5 C04"),
 "C05": dict(level="model_checking",
   text="GluonCore.tla action properties NoExpungeDuringFetchStore / RemovalsAnnouncedWhenPermitted / RemovalBeforeReAdd and the modelled popResponders rule; on replay an EXPUNGE line received while FETCH/STORE is in progress is a violation and [EXPUNGEISSUED] must be present exactly when the model holds back a removal",
   note=CORE_NOTE, technique="TLA+ action properties + gated replay observing the command in progress", design="DESIGN.md section 5 C05"),
 "C10": dict(level="model_checking",
   text="GluonGrammar.tla generates every abstract command of the bounded IMAP grammar with every encoding choice; TLC checks well-formedness laws and coverage ASSUMEs and prints each case; the rendered bytes are parsed by the real parser 8 ways (as the next command of a long-lived connection - one parser instance for thousands of consecutive cases -, whole, with/without continuation callback, byte by byte, split at every interesting position, seeded cuts, seeded keyword case) and the public AST is compared with the abstract command",
   note="exhaustive over the bounded grammar (search depth 2/3, <=2/3 seq ranges); random cuts and random keyword case are seeded samples on top", technique="TLA+ grammar generator + TLC enumeration; differential comparison of the real parser's AST", design="DESIGN.md section 5 C10"),
 "C16": dict(
   level="model_checking",
   text="GluonSeqSet.tla defines message-set resolution; TLC enumerates every (view size, mode, set) case of the bounded domain, checks the design-level laws of the function (InsideView, BeyondIsBad, UidNeverBad, RangeOrderIrrelevant, CommaIsUnion), and each case is executed on a real server over the wire (FETCH, SEARCH, STORE - also with an empty flag list -, COPY, MOVE, UID EXPUNGE) with the effect compared",
   note="bounded: views of 0..4 messages with UID gaps, sets of <=2 ranges over {small numbers, *, six huge numerals}; huge numerals are symbolic in the spec; the server runs in a child process so a crash is an observation",
   technique="TLA+ spec + TLC exhaustive enumeration; replay of every case on the real server over the wire",
   design="DESIGN.md section 5 C16"),
}

PENDING_REASON = "check not built yet in this tree (DESIGN.md section 10 gives the build order); nothing is claimed for it"
NOT_APPLICABLE = {}

props = [json.loads(l)["id"] for l in open("/verif/properties.jsonl")]
checks = []
for pid in props:
    if pid not in CHECKS:
        continue
    c = CHECKS[pid]
    checks.append({
        "property_id": pid,
        "quick_cmd": f"./check {pid} quick",
        "thorough_cmd": f"./check {pid} thorough",
        "evidence_file": f"/verif/evidence/{pid}.json",
        "replay_cmd_template": f"./check {pid} quick --replay {{path}}",
        "engine": "tlc+vcheck",
        "level_claimed": {"category": c["level"], "text": c["text"], "design_ref": c["design"]},
        "level_note": c["note"],
        "technique": c["technique"],
    })
na = []
for pid in props:
    if pid in CHECKS:
        continue
    na.append({"property_id": pid, "reason": NOT_APPLICABLE.get(pid, PENDING_REASON)})

hooks_commits = [l.strip() for l in open("/verif/hooks_commits.txt")] if __import__("os").path.exists("/verif/hooks_commits.txt") else []
m = {
 "version": 1,
 "setup_cmd": "cd /verif && export GOFLAGS=-mod=mod GOPROXY=off GOSUMDB=off GOTOOLCHAIN=local CGO_ENABLED=1 && mkdir -p bin evidence replays && ./check selftest quick",
 "hooks": {
  "guard": "verif",
  "enable": "go build -tags verif (done by ./check on every run, against /repo's working tree)",
  "baseline_off_cmd": "cd /repo && go build ./... && go test -vet=off -count=1 -timeout 25m ./...",
  "source_commits": hooks_commits,
  "add_only": True,
 },
 "engines": [
  {"name": "tlc", "path": "/opt/veriftools/tla/tla2tools.jar", "serves_properties": sorted(CHECKS), "kind_free_text": "TLC 1.8 explicit-state model checker over the TLA+ modules in /verif/spec"},
  {"name": "vcheck", "path": "/verif/harness", "serves_properties": sorted(CHECKS), "kind_free_text": "Go conformance harness: replays TLC-generated cases/behaviours on the real gluon code and validates recorded traces against the specs"},
 ],
 "checks": checks,
 "not_applicable": na,
 "notes": "Entry point ./check <id> <quick|thorough> [--replay file]; exit 0 held, 1 VIOLATION, 2 machinery problem (never a verdict). Known findings: /verif/known-findings.json. See DESIGN.md.",
}
json.dump(m, open("/verif/MANIFEST.json", "w"), indent=1)
print("claimed:", [c["property_id"] for c in checks])
