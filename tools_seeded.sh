#!/bin/bash
# tools_seeded.sh <patch.diff> <tier> <check ids...>: apply a seeded change to /repo, run the checks, undo it.
patch=$1; tier=$2; shift 2
cd /repo || exit 2
if [ -n "$(git status --porcelain --untracked-files=no)" ]; then echo "/repo has uncommitted changes"; exit 2; fi
git apply "$patch" || { echo "patch does not apply"; exit 2; }
go build ./... || { echo "does not build"; git checkout -- .; exit 2; }
for id in "$@"; do
  out=$(cd /verif && VERIF_SEED=${VERIF_SEED:-1} ./check $id $tier 2>&1)
  rc=$?
  echo "== $id $tier rc=$rc: $(echo "$out" | grep -E '^VIOLATION|^  key|^OK|MACHINERY' | head -6 | tr '\n' ' ' | cut -c1-400)"
done
git -C /repo checkout -- .
