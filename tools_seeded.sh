#!/bin/bash
# tools_seeded.sh <patch.diff> <tier> <check ids...>: apply a seeded change in a scratch worktree of /repo HEAD, run the checks
# against that worktree (VERIF_REPO), remove it. /repo itself is not touched.
patch=$1; tier=$2; shift 2
wt=/tmp/seedwt-$$
git -C /repo worktree add -q --detach $wt HEAD || exit 2
( cd $wt && git apply "$patch" ) || { echo "patch does not apply"; git -C /repo worktree remove --force $wt; exit 2; }
( cd $wt && GOFLAGS=-mod=mod GOPROXY=off GOSUMDB=off GOTOOLCHAIN=local go build ./... ) || { echo "does not build"; git -C /repo worktree remove --force $wt; exit 2; }
for id in "$@"; do
  out=$(cd /verif && VERIF_REPO=$wt VERIF_SEED=${VERIF_SEED:-1} ./check $id $tier 2>&1)
  rc=$?
  echo "== $id $tier rc=$rc: $(echo "$out" | grep -E '^VIOLATION|^  key|^OK|MACHINERY|check:' | head -6 | tr '\n' ' ' | cut -c1-400)"
done
git -C /repo worktree remove --force $wt
rm -f /verif/harness/go.alt_tmp_seedwt_$$_.* /verif/bin/vcheck-alt_tmp_seedwt_$$_
