#!/bin/bash
# dev helper: runtlc.sh <Module> <cfg> [extra tlc args]  (scratch dir under /tmp, removed afterwards)
mod=$1; cfg=$2; shift 2
d=$(mktemp -d /tmp/tlcrun.XXXX)
cp /verif/spec/*.tla $d/ && cp $cfg $d/$mod.cfg
(cd $d && timeout ${TLC_TIMEOUT:-600} java -XX:+UseParallelGC -Xmx12g -Xss64m -cp /opt/veriftools/tla/tla2tools.jar:/opt/veriftools/tla/CommunityModules-deps.jar tlc2.TLC -workers ${TLC_WORKERS:-16} -metadir $d/md -noGenerateSpecTE "$@" $mod.tla 2>&1)
rm -rf $d
