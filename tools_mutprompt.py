#!/usr/bin/env python3
# tools_mutprompt.py <Cxx>...: writes /tmp/mut-prompt-<Cxx>.txt (the complete task of a fresh sub-agent that seeds
# property-breaking changes: only the property text and its own worktree, nothing from /verif) and creates the
# scratch worktree /tmp/mut-<Cxx> of /repo HEAD.
import json, sys, subprocess, re
tmpl = open('/tmp/mut-prompt-C16.txt').read() if False else None
props = {json.loads(l)['id']: json.loads(l) for l in open('/verif/properties.jsonl')}
HEAD = '''You are a software engineer stress-testing a verification effort. You get ONE semantic property of the Go project ProtonMail/gluon (an IMAP4rev1 server library) and your own scratch git worktree of the repository at /tmp/mut-{id} (a detached checkout; work ONLY there; do not touch /repo or /verif, do not look into /verif at all). The sandbox has no network; Go is installed (use: export GOFLAGS=-mod=mod GOPROXY=off GOSUMDB=off GOTOOLCHAIN=local).

THE PROPERTY
{id}: {title}

STATEMENT: {statement}

QUANTIFIED OVER: {q}

Code the property is anchored in: {files}

'''
TAIL = open('/verif/tools_mutprompt.tail.txt').read()
for pid in sys.argv[1:]:
    p = props[pid]
    txt = HEAD.format(id=pid, title=p['title'], statement=p['statement'], q=p['quantifier']['text'], files=', '.join(p['anchors']['files'])) + TAIL.replace('C16', pid)
    open('/tmp/mut-prompt-%s.txt' % pid, 'w').write(txt)
    subprocess.run(['git', '-C', '/repo', 'worktree', 'add', '-q', '--detach', '/tmp/mut-' + pid, 'HEAD'])
    print('wrote /tmp/mut-prompt-%s.txt' % pid)
