#!/usr/bin/env python3
"""Regenerates the table of /verif/seeded/README.md from the meta.json files."""
import json, glob, os, re
head = open('/verif/seeded/README.md').read().split('| id | property |')[0]
rows = []
for m in sorted(glob.glob('/verif/seeded/*/meta.json')):
    d = json.load(open(m))
    br = d['breaks']
    if len(br) > 220: br = br[:217] + '...'
    cb = d.get('caught_by', [])
    if isinstance(cb, list): cb = ''.join(cb)
    rows.append('| %s | %s | %s | %s |' % (d['id'], d['property'], br.replace('|', '/'), cb.replace('|', '/')))
open('/verif/seeded/README.md', 'w').write(head + '| id | property | change | caught by |\n|----|----------|--------|-----------|\n' + '\n'.join(rows) + '\n')
print(len(rows), 'rows')
