#!/bin/bash
# tools_allquick.sh [seed]: every registered quick check once against /repo (rewrites /verif/evidence/<id>.json); one line per check
cd /verif
export VERIF_SEED=${1:-1}
for id in C01 C02 C03 C04 C05 C06 C07 C08 C09 C10 C11 C12 C13 C14 C15 C16 C17 C18 C19 C20; do
  s=$(date +%s); out=$(./check $id quick 2>&1); rc=$?
  echo "== $id quick rc=$rc $(( $(date +%s)-s ))s: $(echo "$out" | grep -E '^VIOLATION|^  key|^OK|MACHINERY|check:' | head -4 | tr '\n' ' ' | cut -c1-400)"
done
